# Compiles the (integer / boolean) z3 terms of a path condition to one Python function so that candidate assignments of the
# symbolic inputs can be tested at ~10^4 evaluations per second.  Used ONLY to find witnesses / counterexamples (a satisfying
# assignment found this way is re-checked by z3 model evaluation and replayed on the real code); it never proves anything.
import z3

_BIN = {z3.Z3_OP_LE: '<=', z3.Z3_OP_GE: '>=', z3.Z3_OP_LT: '<', z3.Z3_OP_GT: '>', z3.Z3_OP_EQ: '==', z3.Z3_OP_IFF: '=='}


class Unsupported(Exception):
    pass


class Compiler:
    def __init__(self):
        self.lines = []
        self.names = {}      # term id -> python name
        self.n = 0
        self.keep = []
        self.extra = []

    def var(self, t):
        return 'v_%d' % t.get_id()

    def emit(self, t):
        k = t.get_id()
        if k in self.names:
            return self.names[k]
        self.keep.append(t)
        kind = t.decl().kind()
        if z3.is_int_value(t):
            name = repr(t.as_long())
            self.names[k] = name
            return name
        if kind == z3.Z3_OP_TRUE:
            return 'True'
        if kind == z3.Z3_OP_FALSE:
            return 'False'
        if kind == z3.Z3_OP_UNINTERPRETED and t.num_args() == 0:
            name = self.var(t)
            self.names[k] = name
            self.extra.append(t)      # a variable that is neither an input nor defined: becomes an extra parameter
            return name
        args = [self.emit(c) for c in t.children()]
        if kind == z3.Z3_OP_ADD:
            e = ' + '.join(args)
        elif kind == z3.Z3_OP_SUB:
            e = ' - '.join(args)
        elif kind == z3.Z3_OP_MUL:
            e = ' * '.join(args)
        elif kind == z3.Z3_OP_UMINUS:
            e = '-' + args[0]
        elif kind in (z3.Z3_OP_IDIV, z3.Z3_OP_DIV):
            e = '_div(%s, %s)' % (args[0], args[1])
        elif kind == z3.Z3_OP_MOD:
            e = '_mod(%s, %s)' % (args[0], args[1])
        elif kind == z3.Z3_OP_ITE:
            e = '(%s if %s else %s)' % (args[1], args[0], args[2])
        elif kind in _BIN:
            e = '%s %s %s' % (args[0], _BIN[kind], args[1])
        elif kind == z3.Z3_OP_DISTINCT:
            if len(args) == 2:
                e = '%s != %s' % (args[0], args[1])
            else:
                e = 'len({%s}) == %d' % (', '.join(args), len(args))
        elif kind == z3.Z3_OP_AND:
            e = ' and '.join(args) if args else 'True'
        elif kind == z3.Z3_OP_OR:
            e = ' or '.join(args) if args else 'False'
        elif kind == z3.Z3_OP_NOT:
            e = 'not ' + args[0]
        elif kind == z3.Z3_OP_IMPLIES:
            e = '(not %s) or %s' % (args[0], args[1])
        elif kind == z3.Z3_OP_XOR:
            e = '%s != %s' % (args[0], args[1])
        else:
            raise Unsupported(str(t.decl()))
        self.n += 1
        name = 't%d' % self.n
        self.lines.append('    %s = (%s)' % (name, e))
        self.names[k] = name
        return name


def _div(a, b):
    # z3 integer division is Euclidean: the remainder is always non-negative
    if b == 0:
        return 0
    q = a // b
    if b < 0 and a - q * b != 0 and a % b != 0:
        q = -((a) // (-b))
    return q


def _mod(a, b):
    if b == 0:
        return a
    return a % abs(b)


def compile_path(inputs, defs, constraints):
    """inputs: z3 Int consts; defs: [(var, term)] in creation order; constraints: z3 Bools not among the defs.
    returns f(list of input values) -> (bool, env dict of defined vars)"""
    c = Compiler()
    params = [c.var(v) for v in inputs]
    for v in inputs:
        c.names[v.get_id()] = c.var(v)
        c.keep.append(v)
    body = []
    for r, term in defs:
        val = c.emit(term)
        c.lines.append('    %s = %s' % (c.var(r), val))
        c.names[r.get_id()] = c.var(r)
        c.keep.append(r)
    conds = []
    for con in constraints:
        conds.append(c.emit(con))
    params = params + [c.var(v) for v in c.extra]
    src = 'def f(%s):\n' % ', '.join(params) + '\n'.join(c.lines) + '\n'
    # evaluate constraints one by one to exit early
    for cond in conds:
        src += '    if not (%s):\n        return False\n' % cond
    src += '    return True\n'
    ns = {'_div': _div, '_mod': _mod}
    exec(compile(src, '<fasteval>', 'exec'), ns)
    return ns['f'], list(c.extra)
