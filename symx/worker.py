# Pristine-interpreter replay worker.  Run as:  /venv/bin/python -I worker.py <repo>
# Reads one JSON request per line on stdin, answers one JSON line on stdout.  It imports the *untransformed*
# stdnum from <repo> and knows nothing about the symbolic engine.
#
# request : {"steps": [{"mod": "stdnum.isbn", "func": "validate", "args": [...], "kwargs": {...}}, ...],
#            "today": "YYYY-MM-DD" | null}
#   argument encodings: JSON scalars / strings / lists as themselves; {"$ref": k} = result of step k;
#   {"$bytes": hex}; {"$tuple": [...]}; {"$float": "nan"}; {"$object": 1}; {"$strsub": "text"} (str subclass);
#   {"$dict": [[k, v], ...]}; {"$date": "YYYY-MM-DD"}; {"$attr": [k, name]} attribute of result k;
#   {"$item": [k, i]} item of result k
# response: {"results": [{"kind": "ret", "type": "str", "value": ...} |
#                        {"kind": "exc", "type": "InvalidFormat", "validation_error": true, "frame": "stdnum/x.py:f", "msg": ".."} |
#                        {"kind": "skipped"}]}
import datetime as real_dt
import importlib
import json
import os
import sys
import traceback
import types


def main():
    repo = sys.argv[1]
    sys.path.insert(0, repo)
    import stdnum.exceptions as exc
    VE = exc.ValidationError
    extra = {}

    def load_extra(name, path):
        if name not in extra:
            import importlib.machinery
            import importlib.util
            loader = importlib.machinery.SourceFileLoader(name, path)
            spec = importlib.util.spec_from_loader(name, loader)
            m = importlib.util.module_from_spec(spec)
            loader.exec_module(m)
            extra[name] = m
        return extra[name]

    class StrSub(str):
        pass

    def dec(a, results):
        if isinstance(a, list):
            return [dec(x, results) for x in a]
        if isinstance(a, dict):
            if '$ref' in a:
                r = results[a['$ref']]
                if r[0] != 'ret':
                    raise LookupError('ref to failed step')
                return r[1]
            if '$attr' in a:
                k, name = a['$attr']
                r = results[k]
                if r[0] != 'ret':
                    raise LookupError('ref to failed step')
                return getattr(r[1], name)
            if '$item' in a:
                k, i = a['$item']
                r = results[k]
                if r[0] != 'ret':
                    raise LookupError('ref to failed step')
                return r[1][i]
            if '$cat' in a:
                return ''.join(dec(p, results) for p in a['$cat'])
            if '$slice' in a:
                k, lo, hi = a['$slice']
                r = results[k]
                if r[0] != 'ret':
                    raise LookupError('ref to failed step')
                return r[1][lo or None:hi or None]
            if '$bytes' in a:
                return bytes.fromhex(a['$bytes'])
            if '$tuple' in a:
                return tuple(dec(x, results) for x in a['$tuple'])
            if '$float' in a:
                return float(a['$float'])
            if '$object' in a:
                return object()
            if '$strsub' in a:
                return StrSub(a['$strsub'])
            if '$dict' in a:
                return dict((dec(k, results), dec(v, results)) for k, v in a['$dict'])
            if '$date' in a:
                return real_dt.date.fromisoformat(a['$date'])
            if '$set' in a:
                return set(dec(x, results) for x in a['$set'])
            return dict((k, dec(v, results)) for k, v in a.items())
        return a

    def enc(v, depth=0):
        t = type(v).__name__
        if v is None or isinstance(v, (bool, int, str)):
            return {'type': t, 'value': v}
        if isinstance(v, float):
            return {'type': t, 'value': repr(v)}
        if isinstance(v, real_dt.datetime):
            return {'type': 'datetime', 'value': v.isoformat()}
        if isinstance(v, real_dt.date):
            return {'type': 'date', 'value': v.isoformat()}
        if isinstance(v, bytes):
            return {'type': 'bytes', 'value': v.hex()}
        if t == 'Decimal':
            return {'type': 'Decimal', 'value': str(v)}
        if isinstance(v, (list, tuple)) and depth < 16:
            return {'type': t, 'value': [enc(x, depth + 1) for x in v]}
        if isinstance(v, dict) and depth < 16:
            return {'type': t, 'value': [[enc(k, depth + 1), enc(x, depth + 1)] for k, x in v.items()]}
        if isinstance(v, types.ModuleType):
            return {'type': 'module', 'value': v.__name__}
        return {'type': t, 'value': repr(v)}

    def freeze(today):
        if today is None:
            return []
        y, m, d = [int(x) for x in today.split('-')]

        # isinstance(x, datetime.date) in the library must keep accepting ordinary dates while the clock is frozen
        class _DateMeta(type):
            def __instancecheck__(cls, inst):
                return isinstance(inst, real_dt.date)

        class _DateTimeMeta(type):
            def __instancecheck__(cls, inst):
                return isinstance(inst, real_dt.datetime)

        class FDate(real_dt.date, metaclass=_DateMeta):
            @classmethod
            def today(cls):
                return real_dt.date(y, m, d)

        class FDateTime(real_dt.datetime, metaclass=_DateTimeMeta):
            @classmethod
            def now(cls, tz=None):
                return real_dt.datetime(y, m, d, 12, 0, 0)

            @classmethod
            def today(cls):
                return real_dt.datetime(y, m, d, 12, 0, 0)

            @classmethod
            def utcnow(cls):
                return real_dt.datetime(y, m, d, 12, 0, 0)
        shim = types.SimpleNamespace(**{k: getattr(real_dt, k) for k in dir(real_dt) if not k.startswith('__')})
        shim.date = FDate
        shim.datetime = FDateTime
        saved = []
        mods = [mm for k, mm in list(sys.modules.items()) if (k == 'stdnum' or k.startswith('stdnum.')) and mm is not None]
        mods += list(extra.values())
        for mm in mods:
            cur = mm.__dict__.get('datetime')
            if cur is real_dt:
                saved.append((mm, 'datetime', cur))
                mm.__dict__['datetime'] = shim
            elif cur is real_dt.datetime:
                saved.append((mm, 'datetime', cur))
                mm.__dict__['datetime'] = FDateTime
            cur = mm.__dict__.get('date')
            if cur is real_dt.date:
                saved.append((mm, 'date', cur))
                mm.__dict__['date'] = FDate
        return saved

    def safe_str(e):
        try:
            return str(e)[:200]
        except Exception as e2:
            return '<str() of the exception raised %s>' % type(e2).__name__

    def where(e):
        tb = traceback.extract_tb(e.__traceback__)
        for f in reversed(tb):
            fn = f.filename
            if fn.startswith(repo):
                return '%s:%s' % (os.path.relpath(fn, repo), f.name)
        return '?'

    for line in sys.stdin:
        line = line.strip()
        if not line:
            continue
        req = json.loads(line)
        results = []
        out = []
        try:
            # import all modules first so that clock freezing sees them
            mods = []
            for s in req['steps']:
                if s.get('file'):
                    mods.append(load_extra(s['mod'], s['file']))
                else:
                    mods.append(importlib.import_module(s['mod']))
            saved = freeze(req.get('today'))
            try:
                for s, mod in zip(req['steps'], mods):
                    if any(results[k][0] != 'ret' for k in s.get('requires', ())):
                        results.append(('skipped', None))
                        out.append({'kind': 'skipped'})
                        continue
                    try:
                        args = dec(s.get('args', []), results)
                        kwargs = dec(s.get('kwargs', {}), results)
                    except LookupError:
                        results.append(('skipped', None))
                        out.append({'kind': 'skipped'})
                        continue
                    try:
                        f = mod
                        for part in s['func'].split('.'):
                            f = getattr(f, part)
                        v = f(*args, **kwargs)
                        results.append(('ret', v))
                        o = enc(v)
                        o['kind'] = 'ret'
                        out.append(o)
                    except Exception as e:
                        results.append(('exc', e))
                        out.append({'kind': 'exc', 'type': type(e).__name__, 'validation_error': isinstance(e, VE),
                                    'frame': where(e), 'msg': safe_str(e)})
            finally:
                for mm, k, cur in saved:
                    mm.__dict__[k] = cur
            resp = {'results': out}
        except BaseException as e:
            resp = {'error': '%s: %s' % (type(e).__name__, e), 'trace': traceback.format_exc()[-800:]}
        sys.stdout.write(json.dumps(resp) + '\n')
        sys.stdout.flush()


if __name__ == '__main__':
    main()
