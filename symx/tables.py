# Unicode range tables derived from the *running* interpreter (CPython 3.12.1 / Unicode 15.0.0 in
# the overlay venv).  Cached on disk per interpreter + unicodedata version (a scan takes a few seconds).
import os
import pickle
import sys
import unicodedata

_HERE = os.path.dirname(os.path.dirname(os.path.abspath(__file__)))
_CACHE = os.path.join(_HERE, '.work', 'tables-%d.%d.%d-%s.pickle' % (sys.version_info[:3] + (unicodedata.unidata_version,)))

_TABLES = None


def _ranges(pred):
    out = []
    start = None
    for cp in range(0x110000):
        if pred(chr(cp)):
            if start is None:
                start = cp
        elif start is not None:
            out.append((start, cp - 1))
            start = None
    if start is not None:
        out.append((start, 0x10ffff))
    return out


def _valued(fn):
    """list of (lo, hi, base) with fn(chr(cp)) == cp - base on lo..hi"""
    r = []
    cp = 0
    while cp < 0x110000:
        v = fn(chr(cp))
        if v is None:
            cp += 1
            continue
        base = cp - v
        end = cp
        while end + 1 < 0x110000 and fn(chr(end + 1)) == end + 1 - base:
            end += 1
        r.append((cp, end, base))
        cp = end + 1
    return r


def _case(which):
    single = []
    multi = {}
    for cp in range(0x110000):
        c = chr(cp)
        u = getattr(c, which)()
        if u != c:
            if len(u) == 1:
                d = ord(u) - cp
                if single and single[-1][1] == cp - 1 and single[-1][2] == d:
                    single[-1][1] = cp
                else:
                    single.append([cp, cp, d])
            else:
                multi[cp] = u
    return ([tuple(x) for x in single], multi)


def _build():
    t = {}
    for name in ('isspace', 'isdigit', 'isdecimal', 'isalpha', 'isalnum', 'isnumeric', 'isupper', 'islower'):
        t[name] = _ranges(lambda c, name=name: getattr(c, name)())
    t['decimal'] = _valued(lambda c: unicodedata.decimal(c, None))
    t['digitval'] = _valued(lambda c: unicodedata.digit(c, None))
    t['upper'] = _case('upper')
    t['lower'] = _case('lower')
    t['Zs'] = _ranges(lambda c: unicodedata.category(c) == 'Zs')
    # characters that int() strips as whitespace = str.isspace
    return t


def tables():
    global _TABLES
    if _TABLES is None:
        try:
            with open(_CACHE, 'rb') as f:
                _TABLES = pickle.load(f)
        except Exception:
            _TABLES = _build()
            try:
                os.makedirs(os.path.dirname(_CACHE), exist_ok=True)
                tmp = _CACHE + '.%d' % os.getpid()
                with open(tmp, 'wb') as f:
                    pickle.dump(_TABLES, f)
                os.replace(tmp, _CACHE)
            except Exception:
                pass
    return _TABLES


def table(name):
    return tables()[name]
