# symx: bounded symbolic executor for python-stdnum (see DESIGN.md section 2)
# - loads stdnum modules from /repo with an AST transform routing operations through a runtime
# - SStr: fixed-length strings of symbolic code points (z3 Int), SInt, SBool
# - DFS path exploration by re-execution
import ast, sys, importlib.abc, importlib.util, importlib.machinery, os, time, types, builtins, re as _re
import z3

sys.setrecursionlimit(max(sys.getrecursionlimit(), 60000))   # the regex matcher recurses per repetition (very long inputs)

REPO = os.environ.get('SYMX_REPO', '/repo')

# ----------------------------------------------------------------------------
# unicode tables (symx/tables.py: computed from the running interpreter, cached)
from .tables import table, _ranges


# ----------------------------------------------------------------------------
# control exceptions (BaseException so that `except Exception` in stdnum does not swallow them)

class Abort(BaseException):
    """path abandoned (infeasible / cut / unsupported)"""
    kind = 'abort'


class Infeasible(Abort):
    kind = 'infeasible'


class Cut(Abort):
    kind = 'cut'


class Assume(Abort):
    """harness assumption not met on this path (not a cut: excluded by the property's own precondition)"""
    kind = 'assume'


class Unsupported(Abort):
    kind = 'unsupported'


# ----------------------------------------------------------------------------
# path manager

CONFIG = {'K': 1, 'query_timeout_ms': 10000, 'max_decisions': 4000, 'cutpoints': True, 'cut_hard': True}
BUDGET = CONFIG  # old name

STATS = {'paths': 0, 'checks': 0, 'sat': 0, 'unsat': 0, 'unknown': 0, 'solver_s': 0.0, 'decisions': 0}
ENCODED = set()   # names of stdnum functions executed symbolically (recorded by RT.call)


class PathState:
    def __init__(self, prefix):
        self.prefix = prefix          # list of bools to replay
        self.decisions = []           # decisions taken so far
        self.solver = z3.Solver()
        self.solver.set('timeout', CONFIG['query_timeout_ms'])
        self.pending = []             # new alternatives discovered (decision lists)
        self.model = None
        self.nchecks = 0
        self.unknown = 0
        self.ascii = {}
        self.memo = {}                # condition ast id -> decision already taken on this path
        self.spent = 0
        self.cuts = []
        self.tags = []
        self.hard = []                # constraints left out of intermediate feasibility checks
        self.notes = {}
        self.constraints = []
        self.cutrec = []              # (fresh var, defining term) of every cut point, in execution order
        self.cutmemo = {}             # simplified defining term id -> (var, term)
        self.named = {}               # defining term id -> (var, term) for named intermediate characters
        self.inputs = []              # symbolic input variables (characters / ints) created by the harness
        self.defs = []                # (var, defining term, the asserted equality) in creation order, for partial evaluation
        self.var_constraints = {}     # var id -> constraint over that single variable asserted on this path

    def add(self, c):
        self.solver.add(c)
        self.constraints.append(c)
        if self.model is not None:
            # keep the cached model only if it still satisfies the path condition
            try:
                if not z3.is_true(self.model.eval(c, model_completion=True)):
                    self.model = None
            except Exception:
                self.model = None

    def add_hard(self, c):
        self.hard.append(c)
        self.constraints.append(c)

    def check(self, *extra, full=False):
        self.nchecks += 1
        self._alt_model = None
        t0 = time.time()
        r = z3.unknown
        if self.notes.get('bv'):
            # bit-vector terms on the path.  (1) the bit-vector-free part of the path condition alone often refutes the query
            # (facts implied by earlier character tests): a subset that is unsat makes the whole unsat
            from . import bvroute
            nb = self.notes.get('nobv_solver')
            if nb is None:
                nb = self.notes['nobv_solver'] = [z3.Solver(), 0]
                nb[0].set('timeout', 1500)
            asserts = self.solver.assertions()
            for c in list(asserts)[nb[1]:]:
                if not bvroute.has_bv([c]):
                    nb[0].add(c)
            nb[1] = len(asserts)
            ex = list(extra) + (self.hard if full else [])
            if not bvroute.has_bv(ex) and nb[0].check(*ex) == z3.unsat:
                r = z3.unsat
            else:
                # (2) the pure bit-vector translation (the combined Int/BV solver only times out on these)
                r = self._bv_route(ex, r)
        if r == z3.unknown:
            if full and self.hard:
                r = self.solver.check(*(list(extra) + self.hard))
            else:
                r = self.solver.check(*extra)
        dt = time.time() - t0
        STATS['checks'] += 1
        STATS['solver_s'] += dt
        STATS[str(r)] = STATS.get(str(r), 0) + 1
        if r == z3.unknown:
            self.unknown += 1
        return r

    def _bv_route(self, extra, r):
        """path conditions with bit-vector terms (bech32): decide the pure bit-vector translation (symx/bvroute.py); a `sat`
        answer is confirmed by the ordinary solver with the variables pinned (so that solver.model() is available)"""
        from . import bvroute
        base = list(self.solver.assertions())
        cons = base + list(extra)
        bounded = set(v.get_id() for v in self.inputs) | set(rr.get_id() for rr, t, c in self.defs) | set(v.get_id() for v, t in self.cutrec)
        bounded |= set(self.notes.get('bounded_ids', ()))
        route = self.notes.get('bv_route')
        if route is None:
            route = self.notes['bv_route'] = bvroute.Route()
        status, asg = route.solve(base, list(extra), bounded, CONFIG['query_timeout_ms'])
        STATS['bv_route_' + status] = STATS.get('bv_route_' + status, 0) + 1
        self.notes['bv_last'] = (status, asg if status == 'unknown' else None)
        if status == 'unsat':
            return z3.unsat
        if status == 'sat':
            # confirmation on the original condition with every variable pinned, in a fresh (non-incremental) solver
            s2 = z3.Solver()
            s2.set('timeout', CONFIG['query_timeout_ms'])
            s2.add(cons)
            s2.add([v == val for v, val in asg])
            r2 = s2.check()
            if r2 == z3.sat:
                self._alt_model = s2.model()
                return z3.sat
            STATS['bv_route_unconfirmed_' + str(r2)] = STATS.get('bv_route_unconfirmed_' + str(r2), 0) + 1
        return r

    def last_model(self):
        """model of the last check() that returned sat"""
        m = getattr(self, '_alt_model', None)
        if m is not None:
            return m
        return self.solver.model()

    def check_valid(self, phi, depths=(1, 3, 7)):
        """is phi implied by the path condition?  returns ('unsat', None) [= valid], ('sat', model) or ('unknown', None).
        Tries cone-of-influence slices of increasing depth first: a slice of the path condition that already refutes
        not(phi) proves validity (dropping constraints only weakens the antecedent); `sat` is only ever reported from the
        full path condition."""
        if isinstance(phi, bool):
            if phi:
                return 'unsat', None
            neg = z3.BoolVal(True)
        else:
            neg = z3.Not(phi)
        cons = self.constraints
        if len(cons) > 12 and not self.notes.get('bv'):
            cvars = [term_vars(c) for c in cons]
            target = set(term_vars(neg))
            if isinstance(phi, bool):
                # "this path is infeasible": start the slices from the most recent decisions
                for c in [c for c in cons if not z3.is_true(c)][-3:]:
                    target |= term_vars(c)
            for d in depths:
                reach = set(target)
                chosen = set()
                for _ in range(d):
                    grew = False
                    for i, vs in enumerate(cvars):
                        if i not in chosen and vs & reach:
                            chosen.add(i)
                            if not vs <= reach:
                                reach |= vs
                                grew = True
                    if not grew:
                        break
                # one more sweep: constraints entirely inside the reached variables (ranges)
                for i, vs in enumerate(cvars):
                    if vs and vs <= reach:
                        chosen.add(i)
                if len(chosen) >= len(cons) - 2:
                    break
                s = z3.Solver()
                s.set('timeout', min(CONFIG['query_timeout_ms'], 5000))
                s.add([cons[i] for i in sorted(chosen)])
                s.add(neg)
                t0 = time.time()
                r = s.check()
                STATS['checks'] += 1
                STATS['solver_s'] += time.time() - t0
                STATS['sliced'] = STATS.get('sliced', 0) + 1
                if r == z3.unsat:
                    STATS['unsat'] += 1
                    STATS['sliced_unsat'] = STATS.get('sliced_unsat', 0) + 1
                    return 'unsat', None
        r = self.check(neg, full=True)
        if r == z3.unsat:
            return 'unsat', None
        if r == z3.sat:
            return 'sat', self.last_model()
        if self.hard and self.inputs:
            m = self.witness_model(extra=[neg])      # heuristic counterexample search (a model found this way is a real model)
            if m is not None:
                return 'sat', m
        return 'unknown', None

    def _partial_eval(self, fixed, extra=()):
        """constant propagation through the recorded definitions (creation order) under an assignment of some inputs;
        returns the residual constraints (equivalent to the full condition plus the assignment) or None if refuted"""
        sub = list(fixed)
        defcons = set()
        residual = [v == val for v, val in fixed]
        for r, term, con in self.defs:
            defcons.add(con.get_id())
            t = z3.simplify(z3.substitute(term, *sub)) if sub else term
            if z3.is_int_value(t):
                sub.append((r, t))
                residual.append(r == t)
            else:
                residual.append(r == t)
        for c in list(self.constraints) + list(extra):
            if c.get_id() in defcons:
                continue
            t = z3.simplify(z3.substitute(c, *sub)) if sub else c
            if z3.is_false(t):
                return None
            if not z3.is_true(t):
                residual.append(t)
        return residual

    def _fast_witness(self, relaxed, extra=()):
        """concrete local search with the compiled path condition (symx/fasteval.py): vary one input character, then pairs
        of characters, over a small candidate alphabet; a hit is turned into a genuine z3 model by constant propagation"""
        from . import fasteval
        try:
            defcons = set(con.get_id() for r, t, con in self.defs)
            cons = [c for c in list(self.constraints) + list(extra) if c.get_id() not in defcons]
            f, extras = fasteval.compile_path(self.inputs, [(r, t) for r, t, con in self.defs], cons)
        except Exception:
            return None
        self._fast_ok = True
        g = lambda v: relaxed.eval(v, model_completion=True).as_long()
        try:
            base = [g(v) for v in self.inputs]
            tail = [g(v) for v in extras]
        except Exception:
            return None
        n = len(base)
        cand = sorted(set(base) | set(range(48, 58)) | set(range(65, 91)) | set(range(97, 123)) | {32, 45, 10})
        t_end = time.time() + 6
        hit = None
        try:
            if f(*(base + tail)):
                hit = base
            if hit is None:
                for i in reversed(range(n)):
                    old = base[i]
                    for val in cand:
                        base[i] = val
                        if f(*(base + tail)):
                            hit = list(base)
                            break
                    base[i] = old
                    if hit or time.time() > t_end:
                        break
            if hit is None:
                pairs = [(i, i + 1) for i in reversed(range(n - 1))] + [(i, j) for i in (2, 3) for j in range(max(4, n - 3), n)]
                small = [c for c in cand if 48 <= c <= 57 or 65 <= c <= 90]
                for i, j in pairs:
                    oi, oj = base[i], base[j]
                    for a in small:
                        base[i] = a
                        for b in small:
                            base[j] = b
                            if f(*(base + tail)):
                                hit = list(base)
                                break
                        if hit:
                            break
                    base[i], base[j] = oi, oj
                    if hit or time.time() > t_end:
                        break
        except Exception:
            return None
        if hit is None:
            return None
        fixed = [(v, z3.IntVal(x)) for v, x in zip(self.inputs, hit)] + [(v, z3.IntVal(x)) for v, x in zip(extras, tail)]
        residual = self._partial_eval(fixed, extra)
        if residual is None:
            return None
        s2 = z3.Solver()
        s2.set('timeout', 3000)
        s2.add(residual)
        if s2.check() == z3.sat:
            return s2.model()
        return None

    def witness_model(self, extra=()):
        """model of the full path condition (hard constraints included) or None.
        When the solver cannot construct one directly (checksum chains), most input characters are fixed to the values of
        a model of the relaxed condition and the remaining ones are solved for (a witness is only an example; any will do)."""
        extra = list(extra)
        long_chain = len(self.hard) >= 8 and bool(self.inputs)
        if not long_chain:
            if self.hard:
                self.solver.set('timeout', min(CONFIG['query_timeout_ms'], 3000))
            r = self.check(*extra, full=True)
            self.solver.set('timeout', CONFIG['query_timeout_ms'])
            self.last_status = str(r)
            if r == z3.sat:
                return self.last_model()
            if r == z3.unsat or not self.hard or not self.inputs:
                return None
        import random
        rnd = random.Random(len(self.decisions))
        if self.check(*extra) != z3.sat:
            return None
        relaxed = self.last_model()
        n = len(self.inputs)
        m = self._fast_witness(relaxed, extra)
        if m is not None:
            self.last_status = 'sat'
            return m
        fast_tried = getattr(self, '_fast_ok', False)
        # free sets, cheapest first: single positions (from the end: check characters usually sit there), adjacent pairs,
        # then random larger sets; with everything else fixed the checksum chains evaluate almost concretely
        cands = [[i] for i in reversed(range(n))] + [[i, i + 1] for i in reversed(range(n - 1))]
        cands += [[i, j] for i in (2, 3) for j in range(n - 2, n) if j > i and n > 4]
        cands += [None]      # the direct query on the full condition (can also prove the path infeasible)
        cands += [rnd.sample(range(n), min(n, k)) for k in ((4, 6, 8) if long_chain else (4, 4, 6, 6, 8, 8, 10, 12))]
        if fast_tried:
            # the compiled local search already covered single / pair changes: only the direct query and two random sets remain
            cands = [None] + [rnd.sample(range(n), min(n, k)) for k in (5, 8)]
        t_budget = time.time() + 40
        for attempt, free in enumerate(cands):
            if time.time() > t_budget:
                break
            if free is None:
                if not long_chain:
                    continue
                self.solver.set('timeout', 2000)
                r = self.check(*extra, full=True)
                self.solver.set('timeout', CONFIG['query_timeout_ms'])
                if r == z3.sat:
                    self.last_status = 'sat'
                    return self.last_model()
                if r == z3.unsat:
                    self.last_status = 'unsat'
                    return None
                continue
            free = set(free)
            fixed = [(v, relaxed.eval(v, model_completion=True)) for i, v in enumerate(self.inputs) if i not in free]
            residual = self._partial_eval(fixed, extra)
            if residual is None:
                continue                   # refuted by constant propagation alone
            s2 = z3.Solver()
            s2.set('timeout', 1500 if len(free) <= 2 else 2500)
            s2.add(residual)
            t0 = time.time()
            r = s2.check()
            STATS['checks'] += 1
            STATS['solver_s'] += time.time() - t0
            if r == z3.sat:
                self.last_status = 'sat'
                return s2.model()
        self.last_status = 'unknown'
        return None


CUR = None  # current PathState


def xfork(cond, tag):
    """budgeted fork: the True branch is 'exotic' and costs one unit of the path budget K.
    when the budget is exhausted the exotic branch is cut (assumed away) and counted."""
    st = CUR
    if isinstance(cond, bool):
        return cond
    c = simp(cond)
    if z3.is_false(c):
        return False
    k = c.get_id()
    if k in st.memo:
        return st.memo[k]
    if getattr(st, 'nofork', 0):
        raise NoForkNeeded()
    if st.spent >= CONFIG['K']:
        if z3.is_true(c):
            st.cuts.append(tag)
            raise Cut(tag)
        st.cuts.append(tag)
        st.add(z3.Not(c))
        st.memo[k] = False
        return False
    if z3.is_true(c):
        st.spent += 1
        st.tags.append(tag)
        return True
    r = fork(c, prefer=False)
    if r:
        st.spent += 1
        st.tags.append(tag)
    return r


def fork(cond, prefer=True):
    """cond: z3 BoolRef. returns concrete bool, registers the alternative if feasible."""
    st = CUR
    if isinstance(cond, bool):
        return cond
    cond = simp(cond)
    if z3.is_true(cond):
        return True
    if z3.is_false(cond):
        return False
    k = cond.get_id()
    if k in st.memo:
        return st.memo[k]
    if getattr(st, 'nofork', 0):
        raise NoForkNeeded()
    i = len(st.decisions)
    if i >= CONFIG['max_decisions']:
        st.cuts.append('depth')
        raise Cut('depth')
    STATS['decisions'] += 1
    if i < len(st.prefix):
        d = st.prefix[i]
        st.decisions.append(d)
        st.add(cond if d else z3.Not(cond))
        st.memo[k] = d
        return d
    can_t = can_f = None
    if st.model is not None:
        try:
            v = st.model.eval(cond, model_completion=True)
            if z3.is_true(v):
                can_t = True
            elif z3.is_false(v):
                can_f = True
        except Exception:
            pass
    if can_t is None:
        r = st.check(cond)
        can_t = (r != z3.unsat)      # unknown: treated as feasible (counted; unit becomes inconclusive)
        if r == z3.sat:
            st.model = st.last_model()
    if can_f is None:
        r = st.check(z3.Not(cond))
        can_f = (r != z3.unsat)
        if r == z3.sat and not can_t:
            st.model = st.last_model()
    if can_t and can_f:
        st.pending.append(st.decisions + [not prefer])
        d = prefer
    elif can_t:
        d = True
    elif can_f:
        d = False
    else:
        raise Infeasible('infeasible')
    st.decisions.append(d)
    c = cond if d else z3.Not(cond)
    st.add(c)
    st.memo[k] = d
    if st.model is not None:
        try:
            if not z3.is_true(st.model.eval(c, model_completion=True)):
                st.model = None
        except Exception:
            st.model = None
    return d


def assume(cond):
    """harness-level assumption: restrict the path to cond (no alternative queued)"""
    st = CUR
    if isinstance(cond, SBool):
        cond = cond.z
    if isinstance(cond, bool):
        if not cond:
            raise Assume('assume')
        return
    st.add(cond)
    st.model = None


# ----------------------------------------------------------------------------
# symbolic values

_fresh = [0]


def cut(term, lo, hi, hard=False):
    """cut point: name a small-range intermediate by a fresh variable (DESIGN.md 2.5); the definition is recorded so
    that paired runs can be aligned and injectivity lemmas proven per step (symx/pairs.py)"""
    t = simp(term)
    if z3.is_int_value(t):
        return t
    st = CUR
    prev = st.cutmemo.get(t.get_id())
    if prev is not None:
        st.cutrec.append((prev[0], term))     # same definition as an earlier cut point on this path: share the variable
        return prev[0]
    r = fresh_int('k')
    st.cutmemo[t.get_id()] = (r, t)
    rng = z3.And(r >= lo, r <= hi)
    st.add(rng)
    if hard or CONFIG.get('cut_hard'):
        st.add_hard(r == term)
    else:
        st.add(r == term)
    st.defs.append((r, term, st.constraints[-1]))
    st.cutrec.append((r, term))
    st.var_constraints[r.get_id()] = rng
    st.notes.setdefault('var_range', {})[r.get_id()] = (lo, hi)
    return r


def named(term, prefix):
    """fresh variable defined as `term`; the same definition on the same path yields the same variable (so that a second
    run over the same characters shares them with the first)"""
    st = CUR
    k = term.get_id()
    e = st.named.get(k)
    if e is not None:
        return e[0]
    r = fresh_int(prefix)
    st.add(r == term)
    st.defs.append((r, term, st.constraints[-1]))
    st.named[k] = (r, term)
    return r


def fresh_int(name='v'):
    _fresh[0] += 1
    return z3.Int('%s%d' % (name, _fresh[0]))


def zint(x):
    if isinstance(x, SInt):
        return x.z
    if isinstance(x, bool):
        return z3.IntVal(int(x))
    if isinstance(x, int):
        return z3.IntVal(x)
    if isinstance(x, SBool):
        return z3.If(x.z, 1, 0)
    raise Unsupported('zint %r' % type(x))


class SBool:
    def __init__(self, z):
        self.z = z

    def __bool__(self):
        return fork(self.z)


class SInt:
    def __init__(self, z):
        self.z = z

    def __bool__(self):
        return fork(self.z != 0)

    def _bin(self, o, f, rev=False):
        if not isinstance(o, (int, SInt, SBool)):
            return NotImplemented
        a, b = self.z, zint(o)
        if rev:
            a, b = b, a
        return SInt(f(a, b))
    __add__ = lambda s, o: s._bin(o, lambda a, b: a + b)
    __radd__ = lambda s, o: s._bin(o, lambda a, b: a + b, True)
    __sub__ = lambda s, o: s._bin(o, lambda a, b: a - b)
    __rsub__ = lambda s, o: s._bin(o, lambda a, b: a - b, True)

    def __mul__(s, o):
        if isinstance(o, (str, SStr, tuple, list)):
            raise Unsupported('seq * SInt')
        return s._bin(o, lambda a, b: a * b)
    __rmul__ = __mul__

    # python floor semantics: for positive constant divisor z3 div/mod (euclidean) coincide with floor
    def __mod__(s, o):
        if isinstance(o, int) and o > 0:
            if CONFIG.get('cutpoints') and o <= 4096:
                return SInt(cut(s.z % o, 0, o - 1))
            return SInt(s.z % o)
        if isinstance(o, SInt):
            if not fork(o.z > 0):
                raise Unsupported('mod by non-positive symbolic')
            return SInt(s.z % o.z)
        raise Unsupported('mod')

    def __rmod__(s, o):
        if isinstance(o, int):
            if not fork(s.z > 0):
                raise Unsupported('mod by non-positive symbolic')
            return SInt(z3.IntVal(o) % s.z)
        return NotImplemented

    def __floordiv__(s, o):
        if isinstance(o, int) and o > 0:
            return SInt(s.z / o)
        raise Unsupported('floordiv')

    def __neg__(s):
        return SInt(-s.z)

    def __index__(s):
        # concretize: fork over values is expensive; used e.g. for seq[SInt]
        raise Unsupported('__index__ of SInt')

    def _cmp(s, o, f):
        if not isinstance(o, (int, SInt, SBool)):
            return NotImplemented
        return SBool(f(s.z, zint(o)))
    __eq__ = lambda s, o: s._cmp(o, lambda a, b: a == b)
    __ne__ = lambda s, o: s._cmp(o, lambda a, b: a != b)
    __lt__ = lambda s, o: s._cmp(o, lambda a, b: a < b)
    __le__ = lambda s, o: s._cmp(o, lambda a, b: a <= b)
    __gt__ = lambda s, o: s._cmp(o, lambda a, b: a > b)
    __ge__ = lambda s, o: s._cmp(o, lambda a, b: a >= b)

    def __hash__(self):
        raise Unsupported('hash of SInt')

    def __str__(self):
        raise Unsupported('str() of SInt outside the models')

    def __format__(self, spec):
        raise Unsupported('format() of SInt outside the models')

    def __abs__(s):
        return SInt(z3.If(s.z < 0, -s.z, s.z))

    def bit_length(s):
        a = z3.If(s.z < 0, -s.z, s.z)
        return SInt(z3.Sum([z3.If(a >= 2 ** k, 1, 0) for k in range(0, 130)]))


def is_ascii(c):
    """budgeted fork on a symbolic char being non-ASCII (memoised per path)"""
    if isinstance(c, int):
        return c < 128
    st = CUR
    k = c.get_id()
    if k not in st.ascii:
        src = st.notes.get(('src', k))
        if src is not None and src in st.ascii:
            # character derived (clean-up table, case mapping) from a character whose status is already decided on this
            # path: the exotic event has been paid for by the source; an ASCII source always yields an ASCII image
            if st.ascii[src]:
                st.add(c < 128)
                st.ascii[k] = True
            else:
                st.ascii[k] = not fork(c >= 128, prefer=False)
        else:
            st.ascii[k] = not xfork(c >= 128, 'nonascii')
    return st.ascii[k]


def derived_char(new, src):
    """record that symbolic character `new` is the image of `src` under a character map"""
    if not isinstance(src, int) and not isinstance(new, int):
        CUR.notes[('src', new.get_id())] = src.get_id()


_MEMO = {}


def memo(key, keep, fn):
    """global memo of z3 term constructions across paths (terms are hash-consed; `keep` keeps the key ASTs alive)"""
    e = _MEMO.get(key)
    if e is None:
        e = (keep, fn())
        _MEMO[key] = e
    return e[1]


_TVARS = {}


def term_vars(t):
    """frozenset of ids of the uninterpreted constants of t (memoised per term id; terms are kept alive by the memo)"""
    k = t.get_id()
    e = _TVARS.get(k)
    if e is not None:
        return e[1]
    acc = set()
    seen = set()
    stack = [t]
    while stack:
        x = stack.pop()
        i = x.get_id()
        if i in seen:
            continue
        seen.add(i)
        if z3.is_const(x):
            if x.decl().kind() == z3.Z3_OP_UNINTERPRETED:
                acc.add(i)
            continue
        sub = _TVARS.get(i)
        if sub is not None:
            acc |= sub[1]
            continue
        stack.extend(x.children())
    fs = frozenset(acc)
    _TVARS[k] = (t, fs)
    return fs


def simp(cond):
    return memo(('simp', cond.get_id()), cond, lambda: z3.simplify(cond))


def tcond(c, name):
    """condition that char c satisfies str predicate `name` (ASCII-first)"""
    if isinstance(c, int):
        return z3.BoolVal(getattr(chr(c), name)())
    asc = is_ascii(c)
    if asc:
        return memo(('tc', c.get_id(), name, True), c, lambda: in_ranges(c, [(lo, min(hi, 127)) for lo, hi in table(name) if lo < 128]))
    return memo(('tc', c.get_id(), name, False), c, lambda: in_ranges(c, table(name)))


def in_ranges(c, ranges):
    if isinstance(c, int):
        return z3.BoolVal(any(lo <= c <= hi for lo, hi in ranges))
    return z3.Or([c == lo if lo == hi else z3.And(c >= lo, c <= hi) for lo, hi in ranges]) if ranges else z3.BoolVal(False)


def ceq(a, b):
    if isinstance(a, int) and isinstance(b, int):
        return z3.BoolVal(a == b)
    return a == b


class SStr:
    """string with concrete length; chars are ints (concrete code points) or z3 Int terms"""

    def __init__(self, chars):
        self.chars = list(chars)

    @staticmethod
    def of(x):
        if isinstance(x, SStr):
            return x
        if isinstance(x, str):
            return SStr([ord(c) for c in x])
        if isinstance(x, LazyDec):
            return SStr.of(x.force())
        raise Unsupported('SStr.of %r' % type(x))

    def is_concrete(self):
        return all(isinstance(c, int) for c in self.chars)

    def concrete(self):
        return ''.join(chr(c) for c in self.chars)

    def __len__(self):
        return len(self.chars)

    def __bool__(self):
        return len(self.chars) > 0

    def __iter__(self):
        for c in self.chars:
            yield mk([c])

    def __reversed__(self):
        for c in reversed(self.chars):
            yield mk([c])

    def __getitem__(self, i):
        if isinstance(i, slice):
            return mk(self.chars[i])
        if isinstance(i, SInt):
            return getitem(self, i)
        return mk([self.chars[i]])

    def __add__(self, o):
        if isinstance(o, (str, SStr)):
            return mk(self.chars + SStr.of(o).chars)
        return NotImplemented

    def __radd__(self, o):
        if isinstance(o, str):
            return mk(SStr.of(o).chars + self.chars)
        return NotImplemented

    def __mul__(self, n):
        if isinstance(n, int):
            return mk(self.chars * n)
        raise Unsupported('SStr*sym')

    def _eqz(self, o):
        if not isinstance(o, (str, SStr)):
            return z3.BoolVal(False)
        o = SStr.of(o)
        if len(o) != len(self):
            return z3.BoolVal(False)
        return z3.And([ceq(a, b) for a, b in zip(self.chars, o.chars)]) if self.chars else z3.BoolVal(True)

    def __eq__(self, o):
        return SBool(self._eqz(o))

    def __ne__(self, o):
        return SBool(z3.Not(self._eqz(o)))

    def _ltz(self, o, strict):
        # lexicographic self < o (or <=)
        o = SStr.of(o)
        a, b = self.chars, o.chars
        n = min(len(a), len(b))
        # tail condition when all first n equal
        if len(a) < len(b):
            res = z3.BoolVal(True)
        elif len(a) == len(b):
            res = z3.BoolVal(not strict)
        else:
            res = z3.BoolVal(False)
        for i in reversed(range(n)):
            x, y = a[i], b[i]
            if isinstance(x, int) and isinstance(y, int):
                if x < y:
                    res = z3.BoolVal(True)
                elif x > y:
                    res = z3.BoolVal(False)
                # equal: res unchanged
            else:
                res = z3.If(x < y, True, z3.If(x > y, False, res))
        return res

    def __lt__(self, o):
        return SBool(self._ltz(o, True))

    def __le__(self, o):
        return SBool(self._ltz(o, False))

    def __gt__(self, o):
        return SBool(z3.Not(self._ltz(o, False)))

    def __ge__(self, o):
        return SBool(z3.Not(self._ltz(o, True)))

    def __hash__(self):
        raise Unsupported('hash of SStr')

    def __contains__(self, item):
        raise Unsupported('in SStr via __contains__ (should be intercepted)')

    def __str__(self):
        raise Unsupported('str() of SStr outside the models')

    def __format__(self, spec):
        raise Unsupported('format() of SStr outside the models')

    # ---- methods
    def _strip_n(self, chars, left):
        """number of chars stripped from the left (or right); forks"""
        seq = self.chars if left else self.chars[::-1]
        n = 0
        for c in seq:
            if chars is None:
                cond = tcond(c, 'isspace')
            else:
                cond = z3.Or([ceq(c, ord(x)) for x in chars]) if chars else z3.BoolVal(False)
            if xfork(cond, 'strip'):
                n += 1
            else:
                break
        return n

    def strip(self, chars=None):
        return self.lstrip(chars).rstrip(chars)

    def lstrip(self, chars=None):
        n = self._strip_n(chars, True)
        return mk(self.chars[n:])

    def rstrip(self, chars=None):
        n = self._strip_n(chars, False)
        return mk(self.chars[:len(self.chars) - n])

    def _case(self, which):
        single, multi = table(which)
        out = []
        for c in self.chars:
            if isinstance(c, int):
                out.extend(ord(x) for x in getattr(chr(c), which)())
                continue
            if is_ascii(c):
                if which == 'upper':
                    out.append(memo(('aup', c.get_id()), c, lambda: z3.If(z3.And(c >= 97, c <= 122), c - 32, c)))
                else:
                    out.append(memo(('alo', c.get_id()), c, lambda: z3.If(z3.And(c >= 65, c <= 90), c + 32, c)))
                continue
            # multi-char expansion: fork (rare)
            if multi and xfork(z3.Or([c == k for k in multi]), 'case-expand'):
                # concretize which one
                for k, v in multi.items():
                    if fork(c == k):
                        out.extend(ord(x) for x in v)
                        break
                else:
                    raise Infeasible('infeasible')
                continue
            r = named(case_term(which, c), 'u')
            derived_char(r, c)
            out.append(r)
        return mk(out)

    def upper(self):
        return self._case('upper')

    def lower(self):
        return self._case('lower')

    def startswith(self, p, start=0):
        if isinstance(p, tuple):
            return SBool(z3.Or([self.startswith(x).z for x in p]))
        p = SStr.of(p)
        s = self.chars[start:]
        if len(p) > len(s):
            return False
        return SBool(SStr(s[:len(p)])._eqz(p))

    def endswith(self, p):
        if isinstance(p, tuple):
            return SBool(z3.Or([zbool(self.endswith(x)) for x in p]))
        p = SStr.of(p)
        if len(p) > len(self):
            return False
        if len(p) == 0:
            return True
        return SBool(SStr(self.chars[-len(p):])._eqz(p))

    def concrete_or_self(self):
        return self.concrete() if self.is_concrete() else self

    def isdigit(self):
        if not self.chars:
            return False
        return SBool(z3.And([tcond(c, 'isdigit') for c in self.chars]))

    def isalpha(self):
        if not self.chars:
            return False
        return SBool(z3.And([tcond(c, 'isalpha') for c in self.chars]))

    def isalnum(self):
        if not self.chars:
            return False
        return SBool(z3.And([tcond(c, 'isalnum') for c in self.chars]))

    def zfill(self, n):
        if len(self) >= n:
            return self
        # sign handling: fork on first char being +/-
        if self.chars and fork(z3.Or(ceq(self.chars[0], 43), ceq(self.chars[0], 45))):
            return mk([self.chars[0]] + [48] * (n - len(self)) + self.chars[1:])
        return mk([48] * (n - len(self)) + self.chars)

    def rjust(self, n, fill=' '):
        return mk([ord(fill)] * max(0, n - len(self)) + self.chars)

    def ljust(self, n, fill=' '):
        return mk(self.chars + [ord(fill)] * max(0, n - len(self)))

    def replace(self, old, new, count=-1):
        old = SStr.of(old)
        new = SStr.of(new)
        if len(old) == 0:
            raise Unsupported('replace empty')
        out = []
        i = 0
        n = len(self.chars)
        while i < n:
            if i + len(old) <= n and xfork(SStr(self.chars[i:i + len(old)])._eqz(old), 'replace'):
                out.extend(new.chars)
                i += len(old)
            else:
                out.append(self.chars[i])
                i += 1
        return mk(out)

    def find(self, sub):
        sub = SStr.of(sub)
        for i in range(0, len(self) - len(sub) + 1):
            if fork(SStr(self.chars[i:i + len(sub)])._eqz(sub)):
                return i
        return -1

    def index(self, sub):
        r = self.find(sub)
        if r < 0:
            raise ValueError('substring not found')
        return r

    def split(self, sep=None, maxsplit=-1):
        if sep is None:
            raise Unsupported('split()')
        sep = SStr.of(sep)
        parts = []
        cur = []
        i = 0
        n = len(self.chars)
        while i < n:
            if (maxsplit < 0 or len(parts) < maxsplit) and i + len(sep) <= n and fork(SStr(self.chars[i:i + len(sep)])._eqz(sep)):
                parts.append(mk(cur))
                cur = []
                i += len(sep)
            else:
                cur.append(self.chars[i])
                i += 1
        parts.append(mk(cur))
        return parts

    def join(self, it):
        items = [SStr.of(x) for x in it]
        out = []
        for k, x in enumerate(items):
            if k:
                out.extend(self.chars)
            out.extend(x.chars)
        return mk(out)

    def encode(self, encoding='utf-8', errors='strict'):
        if encoding.lower().replace('-', '') not in ('utf8', 'ascii'):
            raise Unsupported('encode ' + encoding)
        lim = 128 if encoding.lower() == 'ascii' else None
        bad = []
        for c in self.chars:
            if isinstance(c, int):
                if 0xd800 <= c <= 0xdfff or (lim and c >= lim):
                    raise UnicodeEncodeError(encoding, chr(c), 0, 1, 'not encodable')
            else:
                bad.append(z3.And(c >= 0xd800, c <= 0xdfff) if lim is None else c >= lim)
        if bad and fork(z3.Or(bad), prefer=False):
            raise UnicodeEncodeError(encoding, 'x', 0, 1, 'not encodable (symbolic character)')
        return EncodedStr(self)

    def __repr__(self):
        return 'SStr(%s)' % ''.join(chr(c) if isinstance(c, int) else '?' for c in self.chars)


class EncodedStr:
    """bytes obtained by encoding a symbolic string (kept as the string; only passed through / decoded again)"""

    def __init__(self, s):
        self.s = s

    def decode(self, *a):
        return self.s

    def __len__(self):
        raise Unsupported('len of encoded symbolic string')


def mk(chars):
    """make a string: concrete str when all chars concrete"""
    chars = list(chars)
    if all(isinstance(c, int) for c in chars):
        return ''.join(chr(c) for c in chars)
    return SStr(chars)


def zbool(x):
    if isinstance(x, SBool):
        return x.z
    if isinstance(x, bool):
        return z3.BoolVal(x)
    if isinstance(x, SInt):
        return x.z != 0
    if isinstance(x, SStr):
        return z3.BoolVal(len(x) > 0)
    if type(x).__name__ == 'SBV':
        return x.nonzero()
    return z3.BoolVal(bool(x))


def case_term(which, x):
    """z3 term for the single-character case mapping of a non-ASCII-or-any char x (balanced ite tree)"""
    single, multi = table(which)

    def build(lo, hi):
        if lo >= hi:
            return x
        if hi - lo == 1:
            a, b, d = single[lo]
            return z3.If(z3.And(x >= a, x <= b), x + d, x)
        mid = (lo + hi) // 2
        return z3.If(x < single[mid][0], build(lo, mid), build(mid, hi))
    return build(0, len(single))


# ----------------------------------------------------------------------------
# models of builtins

def sym(x):
    return isinstance(x, SYM_TYPES)


def m_bool(x=False):
    x = force(x)
    if isinstance(x, (SBool,)):
        return x
    if isinstance(x, SInt):
        return SBool(x.z != 0)
    if isinstance(x, SStr):
        return len(x) > 0
    if isinstance(x, SDate):
        return True
    return bool(x)


def digit_value(c, base=10):
    """(valid_cond, value_expr) for int(single char, base)"""
    if isinstance(c, int):
        return _digit_value(c, base)
    asc = is_ascii(c)
    return memo(('dv', c.get_id(), base, asc), c, lambda: _digit_value(c, base))


def _digit_value(c, base=10):
    if isinstance(c, int):
        try:
            return z3.BoolVal(True), z3.IntVal(int(chr(c), base))
        except ValueError:
            return z3.BoolVal(False), z3.IntVal(0)
    dec = table('decimal')
    nd = min(base, 10)
    if is_ascii(c):
        valid = z3.And(c >= 48, c <= 47 + nd)
        val = c - 48
    else:
        valid = z3.Or([z3.And(c >= lo, c <= min(hi, b + nd - 1)) for lo, hi, b in dec if lo - b < nd])
        val = z3.IntVal(0)
        for lo, hi, b in reversed(dec):
            val = z3.If(z3.And(c >= lo, c <= hi), c - b, val)
    if base > 10:
        up = z3.And(c >= 65, c <= 65 + base - 11)
        lw = z3.And(c >= 97, c <= 97 + base - 11)
        valid = z3.Or(valid, up, lw)
        val = z3.If(up, c - 55, z3.If(lw, c - 87, val))
    return valid, val


INT_MAX_STR_DIGITS = sys.get_int_max_str_digits() if hasattr(sys, "get_int_max_str_digits") else 1 << 60


def m_int(x=0, base=10):
    if isinstance(x, SInt):
        return x
    if isinstance(x, SBool):
        return SInt(z3.If(x.z, 1, 0))
    if isinstance(x, LazyBigInt):
        return x
    if isinstance(x, LazyDec):
        return x.to_int()
    if isinstance(base, SInt):
        raise Unsupported('int() with symbolic base')
    if not isinstance(x, SStr):
        if isinstance(x, SYM_TYPES):
            raise TypeError("int() argument must be a string, a bytes-like object or a real number, not '%s'" % _pytype_name(x))
        return int(x, base) if isinstance(x, (str, bytes)) else int(x)
    n = len(x)
    if n == 0:
        raise ValueError('invalid literal for int()')
    if not (2 <= base <= 36):
        raise Unsupported('int base %r' % base)
    pairs = [digit_value(c, base) for c in x.chars]
    limited = base not in (2, 4, 8, 16, 32)   # sys.get_int_max_str_digits() == 4300 applies to the other bases
    if fork(z3.And([p[0] for p in pairs])):
        if limited and n > INT_MAX_STR_DIGITS:
            raise ValueError('Exceeds the limit (%d digits) for integer string conversion' % INT_MAX_STR_DIGITS)
        acc = pairs[0][1]
        for _, e in pairs[1:]:
            acc = acc * base + e
        return SInt(acc)
    # not all digits: whitespace / sign / underscore forms of int(); explored by class-forking
    classes = []
    for k, c in enumerate(x.chars):
        if fork(z3.And(tcond(c, 'isspace'), z3.Not(z3.And(c >= 0x1c, c <= 0x1f)) if not isinstance(c, int) else z3.BoolVal(not (0x1c <= c <= 0x1f)))):
            # int() strips str.isspace() characters except the ASCII separators U+001C..U+001F (C isspace is used for ASCII)
            classes.append('s')
        elif fork(z3.Or(ceq(c, 43), ceq(c, 45))):
            classes.append('+' if fork(ceq(c, 43)) else '-')
        elif fork(ceq(c, 95)):
            classes.append('_')
        elif fork(pairs[k][0]):
            classes.append('d')
        elif base in (2, 8, 16) and fork(z3.Or([ceq(c, ord(p)) for p in {2: 'bB', 8: 'oO', 16: 'xX'}[base]])):
            raise Unsupported('int() literal with base prefix')
        else:
            raise ValueError('invalid literal for int()')
    shape = ''.join(classes)
    m = _re.fullmatch(r's*([+-]?)(d(?:_?d)*)s*', shape)
    if not m:
        raise ValueError('invalid literal for int()')
    if limited and shape.count('d') > INT_MAX_STR_DIGITS:
        raise ValueError('Exceeds the limit (%d digits) for integer string conversion' % INT_MAX_STR_DIGITS)
    acc = z3.IntVal(0)
    for k, cl in enumerate(classes):
        if cl == 'd':
            acc = acc * base + pairs[k][1]
    return SInt(-acc if m.group(1) == '-' else acc)


class LazyDec:
    """decimal rendering of a symbolic non-negative int with unknown number of digits,
    or a concatenation of such (pieces: SInt | str | SStr-of-digits)"""

    def __init__(self, pieces):
        self.pieces = pieces

    def __add__(self, o):
        if isinstance(o, LazyDec):
            return LazyDec(self.pieces + o.pieces)
        if isinstance(o, (str, SStr)):
            return LazyDec(self.pieces + [o])
        return NotImplemented

    def __radd__(self, o):
        if isinstance(o, (str, SStr)):
            return LazyDec([o] + self.pieces)
        return NotImplemented

    def __iter__(self):
        return iter(self.force())

    def __reversed__(self):
        return reversed(self.force())

    def __len__(self):
        return len(self.force())

    def __getitem__(self, i):
        return getitem(self.force(), i)

    def __hash__(self):
        raise Unsupported('hash of LazyDec')

    def to_int(self):
        # fold; SInt pieces assumed 0 <= v < 100 (checked by fork)
        return SInt(self.fold(None))

    def fold(self, m):
        acc = z3.IntVal(0)
        for p in self.pieces:
            if isinstance(p, SInt):
                if not fork(z3.And(p.z >= 0, p.z < 100)):
                    raise Unsupported('LazyDec piece out of range')
                acc = z3.If(p.z < 10, acc * 10, acc * 100) + p.z
            else:
                for c in SStr.of(p).chars:
                    if isinstance(c, int):
                        if not chr(c).isdecimal():
                            raise Unsupported('LazyDec non-digit piece')
                        import unicodedata
                        acc = acc * 10 + unicodedata.decimal(chr(c))
                    else:
                        v, e = digit_value(c)
                        if not fork(v):
                            raise ValueError('invalid literal for int()')
                        acc = acc * 10 + e
            if m is not None:
                acc = cut(acc % m, 0, m - 1, hard=True)   # definition left out of intermediate feasibility checks
        return acc

    def force(self):
        out = []
        for p in self.pieces:
            if isinstance(p, SInt):
                out.extend(render_int(p).chars)
            else:
                out.extend(SStr.of(p).chars)
        return mk(out)


class LazyBig:
    """int(LazyDec) kept lazy so that `% m` can be evaluated by modular folding"""


def render_int(v):
    """str(SInt): fork on sign and number of digits (bounded 0..10**6)"""
    if fork(v.z < 0):
        return mk([45] + SStr.of(render_int(SInt(-v.z))).chars)
    nd = 1
    while not fork(v.z < 10 ** nd):
        nd += 1
        if nd > 40:
            raise Unsupported('render_int too long')
    return mk([48 + (v.z / (10 ** (nd - 1 - k))) % 10 for k in range(nd)])


def m_str(x=''):
    if isinstance(x, (SStr, LazyDec)):
        return x
    if isinstance(x, LazyBigInt):
        return m_str(x.force())
    if isinstance(x, SDecimal):
        return x.to_str()
    if isinstance(x, (SDate, LazySel, SBV)):
        raise Unsupported('str() of %s' % type(x).__name__)
    if isinstance(x, SInt):
        return LazyDec([x])
    if isinstance(x, SBool):
        return 'True' if fork(x.z) else 'False'
    return str(x)


def force(x):
    if isinstance(x, LazyDec):
        return x.force()
    if isinstance(x, LazyBigInt):
        return x.force()
    return x


def m_sum(it, start=0):
    acc = start
    for x in it:
        acc = acc + x
    return acc


def m_all(it):
    zs = []
    for x in it:
        if sym(x):
            zs.append(zbool(x))
        elif not x:
            return False
    if not zs:
        return True
    return SBool(z3.And(zs))


def m_any(it):
    zs = []
    for x in it:
        if sym(x):
            zs.append(zbool(x))
        elif x:
            return True
    if not zs:
        return False
    return SBool(z3.Or(zs))


def m_isinstance(x, t):
    if isinstance(x, (SStr, LazyDec)):
        x = ''
    elif isinstance(x, (SInt, LazyBigInt)):
        x = 0
    elif isinstance(x, SBool):
        x = True
    elif isinstance(x, SDateTime):
        x = _dt.datetime(2000, 1, 1)
    elif isinstance(x, SDate):
        x = _dt.date(2000, 1, 1)
    elif isinstance(x, SDecimal):
        x = _decimal.Decimal(0)
    return isinstance(x, t)


def m_ord(x):
    if isinstance(x, SStr):
        if len(x) != 1:
            raise TypeError('ord() expected a character')
        return SInt(x.chars[0]) if not isinstance(x.chars[0], int) else x.chars[0]
    return ord(x)


def m_divmod(a, b):
    if sym(a) or sym(b):
        return (a // b, a % b)
    return divmod(a, b)


def _m_minmax(which):
    def f(*a, **k):
        if k:
            raise Unsupported(which + ' with key/default on symbolic')
        items = list(a[0]) if len(a) == 1 else list(a)
        if not items:
            raise ValueError(which + '() arg is an empty sequence')
        items = [force(x) for x in items]
        if all(isinstance(x, (int, SInt, SBool)) for x in items):
            acc = zint(items[0])
            for x in items[1:]:
                zx = zint(x)
                acc = z3.If(zx < acc, zx, acc) if which == 'min' else z3.If(zx > acc, zx, acc)
            return SInt(acc)
        raise Unsupported(which + ' of symbolic non-ints')
    return f


def m_chr(x):
    if isinstance(x, SInt):
        if not fork(z3.And(x.z >= 0, x.z <= 0x10ffff)):
            raise ValueError('chr() arg not in range(0x110000)')
        return SStr([x.z])
    return chr(x)


def m_abs(x):
    if isinstance(x, SInt):
        return abs(x)
    return abs(x)


def m_map(f, *its):
    return [RT.call(f, *xs) for xs in zip(*its)]


def m_sorted(it, **k):
    items = list(it)
    if deep_sym(items):
        # (key, value) pairs with concrete distinct keys: the values are never compared
        if not k and all(isinstance(x, tuple) and len(x) == 2 and not deep_sym(x[0]) for x in items) and len(set(x[0] for x in items)) == len(items):
            return sorted(items, key=lambda x: x[0])
        raise Unsupported('sorted() of symbolic values')
    return sorted(items, **k)


def m_set(it=()):
    items = list(it)
    if deep_sym(items):
        raise Unsupported('set() of symbolic values')
    return set(items)


def m_list(it=()):
    if isinstance(it, (LazyDec, LazyBigInt)):
        it = force(it)
    return list(it)


def m_tuple(it=()):
    if isinstance(it, (LazyDec, LazyBigInt)):
        it = force(it)
    return tuple(it)


def m_len(x):
    if isinstance(x, LazyDec):
        x = x.force()
    if isinstance(x, (SInt, SBool, LazyBigInt)):
        raise TypeError("object of type 'int' has no len()")
    return len(x)


def m_float(x=0.0):
    raise Unsupported('float() of symbolic')


def m_bytes(*a, **k):
    raise Unsupported('bytes() of symbolic')


def m_pow(a, b, m=None):
    if m is None:
        return RT.binop('Pow', a, b)
    raise Unsupported('3-arg pow symbolic')


def m_round(*a):
    raise Unsupported('round symbolic')


def m_hash(x):
    raise Unsupported('hash symbolic')


def m_repr(x):
    raise Unsupported('repr symbolic')


BUILTIN_MODELS = {
    len: m_len, bool: m_bool, int: m_int, str: m_str, sum: m_sum, all: m_all, any: m_any,
    isinstance: m_isinstance, ord: m_ord, divmod: m_divmod, min: _m_minmax('min'), max: _m_minmax('max'),
    chr: m_chr, abs: m_abs, map: m_map, sorted: m_sorted, set: m_set, frozenset: m_set, list: m_list, tuple: m_tuple,
    float: m_float, bytes: m_bytes, pow: m_pow, round: m_round, hash: m_hash, repr: m_repr,
}


# str methods with concrete receiver but symbolic args

def str_method(recv, name, args, kw):
    if name == 'join':
        items = [force(x) for x in args[0]]
        if any(isinstance(x, LazyDec) for x in items):
            raise Unsupported('join lazy')
        if not any(isinstance(x, SStr) for x in items):
            return recv.join(items)
        return SStr.of(recv).join(items)
    if name == 'index' or name == 'find':
        (x,) = args
        x = force(x)
        if isinstance(x, SStr):
            if len(x) == 1:
                c = x.chars[0]
                cond = z3.Or([c == ord(a) for a in recv]) if recv else z3.BoolVal(False)
                if fork(cond):
                    val = z3.IntVal(-1)
                    for i in reversed(range(len(recv))):
                        val = z3.If(c == ord(recv[i]), i, val)
                    return SInt(val)
                if name == 'index':
                    raise ValueError('substring not found')
                return -1
            raise Unsupported('str.index multi-char sym')
    if name in ('startswith', 'endswith', 'replace', 'split', 'strip', 'lstrip', 'rstrip', 'zfill', 'rjust', 'ljust', 'count'):
        if any(sym(a) for a in args):
            return getattr(SStr.of(recv), name)(*args, **kw)
    if name == 'format':
        import string
        out = []
        auto = 0
        for lit, field, spec, conv in string.Formatter().parse(recv):
            out.extend(ord(c) for c in lit)
            if field is None:
                continue
            if conv not in (None, 's') or '{' in (spec or ''):
                raise Unsupported('str.format conversion / nested spec')
            if field == '':
                v = args[auto]
                auto += 1
            elif field.isdigit():
                v = args[int(field)]
            elif field in kw:
                v = kw[field]
            else:
                raise Unsupported('str.format field %r' % field)
            out.extend(SStr.of(format_value(v, spec or '')).chars)
        return mk(out)
    raise Unsupported('str.%s with symbolic args' % name)


def contains(container, item):
    item = force(item)
    if hasattr(container, '__sx_contains__'):
        return container.__sx_contains__(item)
    if isinstance(container, str):
        if isinstance(item, SStr):
            if len(item) == 0:
                return True
            if len(item) == 1:
                c = item.chars[0]
                if not container:
                    return False
                if isinstance(c, int):
                    return chr(c) in container
                return SBool(memo(('in', c.get_id(), container), c, lambda: z3.Or([c == ord(a) for a in sorted(set(container))])))
            n = len(item)
            return SBool(z3.Or([item._eqz(container[i:i + n]) for i in range(len(container) - n + 1)])) if len(container) >= n else False
        return item in container
    if isinstance(container, SStr):
        item = SStr.of(item)
        n = len(item)
        if n == 0:
            return True
        if n > len(container):
            return False
        return SBool(z3.Or([SStr(container.chars[i:i + n])._eqz(item) for i in range(len(container) - n + 1)]))
    if isinstance(container, (set, frozenset, tuple, list, dict)) or type(container).__name__ in ('dict_keys',):
        if isinstance(item, SStr):
            alts = [item._eqz(k) for k in container if isinstance(k, (str, SStr)) and len(k) == len(item)]
            return SBool(z3.Or(alts)) if alts else False
        if isinstance(item, SInt):
            alts = [item.z == k for k in container if isinstance(k, int)]
            return SBool(z3.Or(alts)) if alts else False
        if isinstance(item, SBV):
            alts = [zbool(bv_cmp('Eq', item, k)) for k in container if isinstance(k, (int, SInt, SBV)) and not isinstance(k, bool)]
            return SBool(z3.Or(alts)) if alts else False
        if any(sym(k) for k in container) and isinstance(container, (tuple, list)):
            return SBool(z3.Or([zbool(k == item) for k in container]))
        return item in container
    return item in container


def _sel(idx, vals):
    """ite chain selecting vals[idx] (vals: z3 terms or ints), idx a z3 Int known to be in range"""
    vals = [z3.IntVal(v) if isinstance(v, int) else v for v in vals]
    n = len(vals)
    val = vals[n - 1]
    for k in reversed(range(n - 1)):
        val = z3.If(idx == k, vals[k], val)
    return val


def _is_plain_int(e):
    return isinstance(e, int) and not isinstance(e, bool)


def getitem(a, i):
    i = force(i)
    a = force(a)
    if isinstance(i, SBool):
        i = SInt(zint(i))
    if hasattr(a, '__sx_contains__'):
        return a[i]
    if isinstance(a, dict):
        if isinstance(i, SStr):
            keys = [k for k in a if isinstance(k, str) and len(k) == len(i)]
            if not keys:
                raise KeyError('symbolic key')
            if not fork(z3.Or([i._eqz(k) for k in keys])):
                raise KeyError('symbolic key')
            vals = [a[k] for k in keys]
            if all(_is_plain_int(v) for v in vals):
                val = z3.IntVal(vals[-1])
                for k, v in reversed(list(zip(keys, vals))[:-1]):
                    val = z3.If(i._eqz(k), v, val)
                return SInt(val)
            if all(isinstance(v, str) and len(v) == len(vals[0]) for v in vals) and len(vals[0]) <= 4:
                n = len(vals[0])
                out = []
                for p in range(n):
                    if len(set(v[p] for v in vals)) == 1:
                        out.append(ord(vals[0][p]))
                        continue
                    val = z3.IntVal(ord(vals[-1][p]))
                    for k, v in reversed(list(zip(keys, vals))[:-1]):
                        val = z3.If(i._eqz(k), ord(v[p]), val)
                    out.append(named(val, 'dv'))
                return mk(out)
            for k in keys[:-1]:
                if fork(i._eqz(k)):
                    return a[k]
            return a[keys[-1]]
        if isinstance(i, SInt):
            keys = [k for k in a if _is_plain_int(k)]
            if not keys or not fork(z3.Or([i.z == k for k in keys])):
                raise KeyError('symbolic key')
            vals = [a[k] for k in keys]
            if all(_is_plain_int(v) for v in vals):
                val = z3.IntVal(vals[-1])
                for k, v in reversed(list(zip(keys, vals))[:-1]):
                    val = z3.If(i.z == k, v, val)
                return SInt(val)
            for k in keys[:-1]:
                if fork(i.z == k):
                    return a[k]
            return a[keys[-1]]
        if isinstance(i, SYM_TYPES):
            raise Unsupported('dict[%s]' % type(i).__name__)
        return a[i]
    if isinstance(a, LazySel):
        if isinstance(i, slice):
            raise Unsupported('LazySel slice')
        rows = a.rows
        if isinstance(i, SInt):
            m = len(a)
            if not fork(z3.And(i.z >= -m, i.z < m)):
                raise IndexError('index out of range')
            j = z3.If(i.z < 0, i.z + m, i.z)
            if all(_is_plain_int(e) for r in rows for e in r):
                t = _sel(a.idx, [_sel(j, list(r)) for r in rows])
                if CONFIG.get('cutpoints'):
                    flat = [e for r in rows for e in r]
                    return SInt(cut(t, min(flat), max(flat)))
                return SInt(t)
            raise Unsupported('LazySel of non-int')
        col = [r[i] for r in rows]
        if all(_is_plain_int(e) for e in col):
            if CONFIG.get('cutpoints'):
                return SInt(cut(_sel(a.idx, col), min(col), max(col)))
            return SInt(_sel(a.idx, col))
        if all(isinstance(e, (tuple, list)) for e in col):
            return LazySel(col, a.idx) if False else _lazysel3(col, a.idx)
        raise Unsupported('LazySel column of %s' % type(col[0]).__name__)
    if isinstance(a, (tuple, list, str, SStr)) and isinstance(i, SInt):
        n = len(a)
        if n == 0 or not fork(z3.And(i.z >= -n, i.z < n)):
            raise IndexError('index out of range')
        idx = z3.If(i.z < 0, i.z + n, i.z)
        if isinstance(a, (str, SStr)):
            chars = SStr.of(a).chars
            return SStr([named(_sel(idx, chars), 'c')])
        if all(_is_plain_int(e) or isinstance(e, SInt) for e in a):
            if CONFIG.get('cutpoints') and all(_is_plain_int(e) for e in a):
                return SInt(cut(_sel(idx, list(a)), min(a), max(a)))
            return SInt(_sel(idx, [e.z if isinstance(e, SInt) else e for e in a]))
        if all(isinstance(e, (tuple, list)) and all(_is_plain_int(x) for x in e) for e in a):
            return LazySel(list(a), idx)
        if all(isinstance(e, str) and len(e) == 1 for e in a):
            return SStr([named(_sel(idx, [ord(e) for e in a]), 'c')])
        # fork over index values
        for k in range(n - 1):
            if fork(idx == k):
                return a[k]
        return a[n - 1]
    if isinstance(i, slice) and (isinstance(i.start, SYM_TYPES) or isinstance(i.stop, SYM_TYPES) or isinstance(i.step, SYM_TYPES)):
        raise Unsupported('slice with symbolic bound')
    if isinstance(i, SYM_TYPES) and not isinstance(a, SYM_TYPES):
        raise Unsupported('%s[%s]' % (type(a).__name__, type(i).__name__))
    return a[i]


def _lazysel3(col, idx):
    raise Unsupported('3-level LazySel')


_CHARMAPS = {}


def _is_charmap(d):
    e = _CHARMAPS.get(id(d))
    if e is None or e[0] is not d or e[1] != len(d):
        e = (d, len(d), all(isinstance(x, str) and len(x) == 1 for x in d) and all(isinstance(v, str) and len(v) == 1 for v in d.values()))
        _CHARMAPS[id(d)] = e
    return e[2]


def dict_get(d, k, default=None):
    k = force(k)
    if isinstance(k, SStr):
        if len(k) == 1 and (isinstance(default, SStr) and len(default) == 1) and _is_charmap(d):
            # char map: ite chain, no fork
            c = k.chars[0]
            asc = is_ascii(c)
            dflt = default.chars[0]

            rng = CUR.notes.get('var_range', {}).get(c.get_id()) if not isinstance(c, int) else None

            def build():
                val = dflt
                for kk, vv in d.items():
                    if asc and ord(kk) >= 128:
                        continue
                    if rng is not None and not (rng[0] <= ord(kk) <= rng[1]):
                        continue        # key outside the range the harness gave this input character
                    if ord(kk) == ord(vv) and dflt is c:
                        continue
                    val = z3.If(c == ord(kk), ord(vv), val)
                return val
            if isinstance(dflt, int):
                val = build()
            else:
                val = memo(('dg', id(d), c.get_id(), dflt.get_id(), asc, rng), (d, c, dflt), build)
            if val is c or (not isinstance(val, int) and not isinstance(c, int) and val.eq(c)):
                return k          # (the memo may return the wrapper object of an earlier path for the same term)
            r = named(val, 'm')
            derived_char(r, c)
            return SStr([r])
        for kk in d:
            if isinstance(kk, str) and len(kk) == len(k) and fork(k._eqz(kk)):
                return d[kk]
        return default
    return d.get(k, default)


# ----------------------------------------------------------------------------
# regex on fixed-length symbolic strings

import re as real_re
try:
    import re._parser as sre_parse
    import re._constants as sre_c
except ImportError:
    import sre_parse
    import sre_constants as sre_c


class SPattern:
    def __init__(self, pattern, flags=0):
        self.pattern = pattern
        self.flags = flags
        self.real = real_re.compile(pattern, flags)
        self.tree = sre_parse.parse(pattern, flags)
        self.groupindex = self.real.groupindex

    def _run(self, s, mode):
        if not isinstance(s, SStr):
            return getattr(self.real, mode)(s)
        chars = s.chars
        n = len(chars)
        starts = [0] if mode in ('match', 'fullmatch') else list(range(n + 1))
        ids = [None if isinstance(c, int) else c.get_id() for c in chars]
        if n > 64 and mode != 'search':
            # very long subjects: `^[class]{lo,hi}\Z` is decided per distinct character (the general matcher enumerates
            # every end position of the repetition, which is quadratic)
            tree = list(self.tree)
            if tree and tree[0] == (sre_c.AT, sre_c.AT_BEGINNING):
                tree = tree[1:]
            anchored = mode == 'fullmatch'
            if tree and tree[-1] == (sre_c.AT, sre_c.AT_END_STRING):
                tree, anchored = tree[:-1], True
            if anchored and len(tree) == 1 and tree[0][0] is sre_c.MAX_REPEAT and len(tree[0][1][2]) == 1 and tree[0][1][2][0][0] is sre_c.IN:
                lo, hi, sub = tree[0][1]
                if not (lo <= n <= hi):
                    return None
                seen, conds = set(), []
                for c, i in zip(chars, ids):
                    key = c if i is None else i
                    if key in seen:
                        continue
                    seen.add(key)
                    conds.append(class_cond(c, sub[0][1], flags=self.tree.state.flags))
                if fork(z3.And(conds) if conds else z3.BoolVal(True)):
                    return SMatch(s, 0, n, {}, self)
                return None

        def akey():
            # the conditions depend on the per-path ASCII status of each character (ASCII-first tables)
            return tuple(c if i is None else (i, CUR.ascii.get(i)) for c, i in zip(chars, ids))
        for st in starts:
            k0 = ('re', id(self), akey(), st)
            e = _MEMO.get(k0)
            if e is None:
                alts = list(matches(list(self.tree), chars, st, {}, self.tree.state.flags))
                _MEMO[('re', id(self), akey(), st)] = ((self, chars), alts)
            else:
                alts = e[1]
            for cond, end, groups in alts:
                if mode == 'fullmatch':
                    cond = z3.And(cond, z3.BoolVal(end == n))
                if fork(cond):
                    return SMatch(s, st, end, groups, self)
        return None

    def match(self, s):
        return self._run(s, 'match')

    def search(self, s):
        return self._run(s, 'search')

    def fullmatch(self, s):
        return self._run(s, 'fullmatch')

    def sub(self, repl, s, count=0):
        if not isinstance(s, SStr):
            if isinstance(repl, SYM_TYPES):
                raise Unsupported('re.sub with symbolic replacement')
            if callable(repl) and isinstance(s, str):
                # concrete subject, replacement function that may return symbolic strings
                pieces = []
                pos = 0
                for k, m in enumerate(self.real.finditer(s)):
                    if count and k >= count:
                        break
                    pieces.append(s[pos:m.start()])
                    r = force(repl(m))
                    if not isinstance(r, (str, SStr)):
                        raise TypeError('expected str instance, %s found' % _pytype_name(r))
                    pieces.append(r)
                    pos = m.end()
                pieces.append(s[pos:])
                out = []
                for q in pieces:
                    out.extend(SStr.of(q).chars)
                return mk(out)
            return self.real.sub(repl, s, count)
        if not isinstance(repl, str) or chr(92) in repl:
            raise Unsupported('re.sub with callable / back-reference replacement on symbolic')
        chars = s.chars
        n = len(chars)
        out = []
        pos = 0
        done = 0
        flags = self.tree.state.flags
        while pos <= n:
            hit = None
            if not count or done < count:
                for cond, end, groups in matches(list(self.tree), chars, pos, {}, flags):
                    if fork(cond):
                        hit = end
                        break
            if hit is None or hit == pos:
                if hit is not None:
                    out.extend(ord(c) for c in repl)      # empty match: replacement, then the character is copied
                    done += 1
                if pos < n:
                    out.append(chars[pos])
                pos += 1
            else:
                out.extend(ord(c) for c in repl)
                pos = hit
                done += 1
        return mk(out)

    def findall(self, s):
        if not isinstance(s, SStr):
            return self.real.findall(s)
        chars = s.chars
        n = len(chars)
        out = []
        pos = 0
        flags = self.tree.state.flags
        ng = self.real.groups
        while pos <= n:
            hit = None
            for cond, end, groups in matches(list(self.tree), chars, pos, {}, flags):
                if fork(cond):
                    hit = (end, groups)
                    break
            if hit is None:
                pos += 1
                continue
            end, groups = hit
            if ng == 0:
                out.append(mk(chars[pos:end]))
            else:
                items = tuple(mk(chars[groups[g][0]:groups[g][1]]) if g in groups else '' for g in range(1, ng + 1))
                out.append(items[0] if ng == 1 else items)
            pos = end if end > pos else pos + 1
        return out


class SMatch:
    def __init__(self, s, start, end, groups, pat):
        self.s, self._start, self._end, self._groups, self.pat = s, start, end, groups, pat

    def group(self, *ids):
        if not ids:
            ids = (0,)
        out = []
        for g in ids:
            if isinstance(g, str):
                g = self.pat.groupindex[g]
            if g == 0:
                out.append(mk(self.s.chars[self._start:self._end]))
            elif g in self._groups:
                a, b = self._groups[g]
                out.append(mk(self.s.chars[a:b]))
            else:
                out.append(None)
        return out[0] if len(out) == 1 else tuple(out)

    def groups(self):
        return tuple(self.group(i) for i in range(1, self.pat.real.groups + 1))

    def end(self):
        return self._end

    def start(self):
        return self._start


_CASED = None
_IC_CACHE = {}


def ic_ranges(lo, hi):
    """code points matching the class [lo-hi] under re.IGNORECASE: the interpreter's own `re` is the oracle,
    evaluated on every cased code point (only those can match a character other than themselves)"""
    global _CASED
    key = (lo, hi)
    if key not in _IC_CACHE:
        if _CASED is None:
            _CASED = [cp for cp in range(0x110000) if (lambda ch: ch.lower() != ch or ch.upper() != ch or ch.casefold() != ch or ch.title() != ch)(chr(cp))]
        pat = real_re.compile('[%s-%s]' % (real_re.escape(chr(lo)), real_re.escape(chr(hi))), real_re.IGNORECASE)
        hits = set(range(lo, hi + 1))
        for cp in _CASED:
            if pat.fullmatch(chr(cp)):
                hits.add(cp)
        out = []
        for cp in sorted(hits):
            if out and out[-1][1] == cp - 1:
                out[-1][1] = cp
            else:
                out.append([cp, cp])
        _IC_CACHE[key] = [tuple(r) for r in out]
    return _IC_CACHE[key]


def lit_cond(c, av, flags):
    if flags & real_re.IGNORECASE:
        return in_ranges(c, ic_ranges(av, av))
    return ceq(c, av)


def class_cond(c, items, negate=False, flags=0):
    alts = []
    for op, av in items:
        if op is sre_c.LITERAL:
            alts.append(lit_cond(c, av, flags))
        elif op is sre_c.RANGE:
            lo, hi = av
            if flags & real_re.IGNORECASE:
                alts.append(in_ranges(c, ic_ranges(lo, hi)))
                continue
            alts.append(z3.And(c >= lo, c <= hi) if not isinstance(c, int) else z3.BoolVal(lo <= c <= hi))
        elif op is sre_c.CATEGORY:
            alts.append(category_cond(c, av))
        elif op is sre_c.NEGATE:
            negate = True
        else:
            raise Unsupported('regex class item %s' % op)
    r = z3.Or(alts) if alts else z3.BoolVal(False)
    r = z3.Not(r) if negate else r
    return z3.simplify(r) if isinstance(c, int) else r


def category_cond(c, cat):
    if cat is sre_c.CATEGORY_DIGIT:
        return tcond(c, 'isdecimal')
    if cat is sre_c.CATEGORY_NOT_DIGIT:
        return z3.Not(tcond(c, 'isdecimal'))
    if cat is sre_c.CATEGORY_SPACE:
        return tcond(c, 'isspace')
    if cat is sre_c.CATEGORY_NOT_SPACE:
        return z3.Not(tcond(c, 'isspace'))
    if cat is sre_c.CATEGORY_WORD:
        return z3.Or(tcond(c, 'isalnum'), ceq(c, 95))
    if cat is sre_c.CATEGORY_NOT_WORD:
        return z3.Not(z3.Or(tcond(c, 'isalnum'), ceq(c, 95)))
    raise Unsupported('regex category %s' % cat)


_TRUE = z3.BoolVal(True)


def _qsimp(c):
    """None if the condition is concretely false, the (simplified) condition otherwise"""
    if z3.is_true(c):
        return _TRUE
    if z3.is_false(c):
        return None
    if c.num_args() and all(z3.is_bool(a) and (z3.is_true(a) or z3.is_false(a)) for a in c.children()):
        c = z3.simplify(c)
        if z3.is_false(c):
            return None
    return c


def _and(a, b):
    if z3.is_true(a):
        return b
    if z3.is_true(b):
        return a
    return z3.And(a, b)


def matches(items, chars, pos, groups, flags):
    """generate (cond, endpos, groups) alternatives in backtracking priority order
    for matching the sequence `items` at `pos`"""
    if not items:
        yield z3.BoolVal(True), pos, groups
        return
    (op, av), rest = items[0], items[1:]
    n = len(chars)
    if op is sre_c.LITERAL:
        if pos < n:
            c = _qsimp(lit_cond(chars[pos], av, flags))
            if c is not None:
                for cond, e, g in matches(rest, chars, pos + 1, groups, flags):
                    yield _and(c, cond), e, g
    elif op is sre_c.NOT_LITERAL:
        if pos < n:
            c = _qsimp(z3.Not(lit_cond(chars[pos], av, flags)))
            if c is not None:
                for cond, e, g in matches(rest, chars, pos + 1, groups, flags):
                    yield _and(c, cond), e, g
    elif op is sre_c.ANY:
        if pos < n:
            c = _qsimp(z3.Not(ceq(chars[pos], 10)) if not (flags & real_re.DOTALL) else z3.BoolVal(True))
            if c is not None:
                for cond, e, g in matches(rest, chars, pos + 1, groups, flags):
                    yield _and(c, cond), e, g
    elif op is sre_c.IN:
        if pos < n:
            c = _qsimp(class_cond(chars[pos], av, flags=flags))
            if c is not None:
                for cond, e, g in matches(rest, chars, pos + 1, groups, flags):
                    yield _and(c, cond), e, g
    elif op is sre_c.AT:
        if av is sre_c.AT_BEGINNING or av is sre_c.AT_BEGINNING_STRING:
            if pos == 0:
                yield from matches(rest, chars, pos, groups, flags)
            elif flags & real_re.MULTILINE and av is sre_c.AT_BEGINNING:
                raise Unsupported('multiline ^')
        elif av is sre_c.AT_END:
            if flags & real_re.MULTILINE:
                raise Unsupported('multiline $')
            if pos == n:
                yield from matches(rest, chars, pos, groups, flags)
            elif pos == n - 1:
                c = ceq(chars[pos], 10)
                for cond, e, g in matches(rest, chars, pos, groups, flags):
                    yield z3.And(c, cond), e, g
        elif av is sre_c.AT_END_STRING:
            if pos == n:
                yield from matches(rest, chars, pos, groups, flags)
        else:
            raise Unsupported('regex AT %s' % av)
    elif op is sre_c.SUBPATTERN:
        gid, add_flags, del_flags, sub = av
        for cond, e, g in matches(list(sub), chars, pos, groups, (flags | add_flags) & ~del_flags):
            g2 = dict(g)
            if gid is not None:
                g2[gid] = (pos, e)
            for cond2, e2, g3 in matches(rest, chars, e, g2, flags):
                yield z3.And(cond, cond2), e2, g3
    elif op is sre_c.BRANCH:
        _, alts = av
        for alt in alts:
            for cond, e, g in matches(list(alt), chars, pos, groups, flags):
                for cond2, e2, g2 in matches(rest, chars, e, g, flags):
                    yield z3.And(cond, cond2), e2, g2
    elif op in (sre_c.MAX_REPEAT, sre_c.MIN_REPEAT):
        lo, hi, sub = av
        sub = list(sub)
        hi = min(hi, n - pos) if hi is not sre_c.MAXREPEAT else n - pos

        def rep(k, p, g):
            """all ways to match exactly-k-more.. generate (cond, end, groups) for k repetitions from p"""
            if k == 0:
                yield z3.BoolVal(True), p, g
                return
            for cond, e, g1 in matches(sub, chars, p, g, flags):
                if e == p:
                    continue  # avoid empty loops
                for cond2, e2, g2 in rep(k - 1, e, g1):
                    yield z3.And(cond, cond2), e2, g2
        counts = range(hi, lo - 1, -1) if op is sre_c.MAX_REPEAT else range(lo, hi + 1)
        # NOTE: priority order approximated by repetition count (exact when sub has fixed width)
        for k in counts:
            if k < 0:
                continue
            for cond, e, g in rep(k, pos, groups):
                for cond2, e2, g2 in matches(rest, chars, e, g, flags):
                    yield z3.And(cond, cond2), e2, g2
    else:
        raise Unsupported('regex op %s' % op)


class ReModule:
    """replacement for `re` inside transformed modules"""

    def __getattr__(self, name):
        return getattr(real_re, name)

    def compile(self, pattern, flags=0):
        return SPattern(pattern, flags)

    def match(self, pattern, s, flags=0):
        return SPattern(pattern, flags).match(s)

    def search(self, pattern, s, flags=0):
        return SPattern(pattern, flags).search(s)

    def sub(self, pattern, repl, s, count=0, flags=0):
        return SPattern(pattern, flags).sub(repl, s, count)

    def findall(self, pattern, s, flags=0):
        return SPattern(pattern, flags).findall(s)


RE = ReModule()

# ----------------------------------------------------------------------------
# runtime entry points used by transformed code

import datetime as _dt
import decimal as _decimal
import calendar as _calendar
import operator as _op

_OPS = {'Eq': 'eq', 'NotEq': 'ne', 'Lt': 'lt', 'LtE': 'le', 'Gt': 'gt', 'GtE': 'ge'}
_IBIN = {'BitOr': _op.ior, 'BitAnd': _op.iand, 'Sub': _op.isub, 'BitXor': _op.ixor}
_BIN = {'Add': _op.add, 'Sub': _op.sub, 'Mult': _op.mul, 'Mod': _op.mod, 'FloorDiv': _op.floordiv,
        'Div': _op.truediv, 'Pow': _op.pow, 'BitAnd': _op.and_, 'BitOr': _op.or_, 'BitXor': _op.xor,
        'LShift': _op.lshift, 'RShift': _op.rshift}

SYM_TYPES = ()  # filled below


def deep_sym(x, depth=0):
    """does x contain a symbolic value (looks into tuples / lists / dicts, 3 levels)"""
    if isinstance(x, SYM_TYPES):
        return True
    if depth < 6:
        if isinstance(x, (tuple, list)):
            return any(deep_sym(e, depth + 1) for e in x)
        if isinstance(x, dict):
            return any(deep_sym(e, depth + 1) for e in x.values())
    return False


def is_transformed(f):
    g = getattr(f, '__globals__', None)
    if g is not None:
        return '__sx__' in g
    if isinstance(f, type):
        m = sys.modules.get(f.__module__)
        return m is not None and '__sx__' in getattr(m, '__dict__', {})
    if isinstance(f, types.MethodType):
        return is_transformed(f.__func__)
    return False


# callables that only store / pass through their arguments and never inspect them
_PASSIVE = {tuple, list, reversed, enumerate, zip, range, iter, next, dict, map, sorted, getattr, hasattr,
            isinstance, type, id, repr}
_PASSIVE_METHODS = {'append', 'extend', 'insert', 'pop', 'items', 'keys', 'values', 'copy', 'setdefault'}

_FUNC_MODELS = {}   # extra function models registered by other parts (hashlib, struct, ...)


def _m_reduce(f, it, *init):
    it = iter(it)
    if init:
        acc = init[0]
    else:
        try:
            acc = next(it)
        except StopIteration:
            raise TypeError('reduce() of empty iterable with no initial value')
    for x in it:
        acc = RT.call(f, acc, x)
    return acc


import functools as _functools
_FUNC_MODELS[_functools.reduce] = _m_reduce


def _m_import(name, *a, **k):
    """__import__ with a symbolic module name: fork over the stdnum sub-packages / modules that exist on disk"""
    name = force(name)
    if not isinstance(name, SStr):
        return __import__(name, *a, **k)
    cands = []
    root = os.path.join(REPO, 'stdnum')
    for d in sorted(os.listdir(root)):
        if os.path.isdir(os.path.join(root, d)) and os.path.exists(os.path.join(root, d, '__init__.py')):
            cands.append('stdnum.' + d)
        elif d.endswith('.py') and d != '__init__.py':
            cands.append('stdnum.' + d[:-3])
    for c in cands:
        if len(c) == len(name) and fork(name._eqz(c)):
            return __import__(c, *a, **k)
    # any other name: could still name an importable top-level module only if it does not start with 'stdnum.'
    if not fork(name.startswith('stdnum.').z if isinstance(name.startswith('stdnum.'), SBool) else z3.BoolVal(bool(name.startswith('stdnum.')))):
        raise Unsupported('__import__ of symbolic non-stdnum name')
    raise ImportError('No module named (symbolic)')


import builtins as _builtins
_FUNC_MODELS[_builtins.__import__] = _m_import

import html as _html
import json as _json


def _m_html_escape(s, quote=True):
    """html.escape: & < > (and " ' when quote) are replaced; each replacement is an exotic event of the budget K"""
    s = force(s)
    if isinstance(s, (SInt, SBool, SDate)):
        raise AttributeError("'%s' object has no attribute 'replace'" % _pytype_name(s))
    if not isinstance(s, SStr):
        return _html.escape(s, quote)
    table = [(38, '&amp;'), (60, '&lt;'), (62, '&gt;')] + ([(34, '&quot;'), (39, '&#x27;')] if quote else [])
    out = []
    for c in s.chars:
        if isinstance(c, int):
            out.extend(ord(x) for x in _html.escape(chr(c), quote))
            continue
        special = z3.Or([c == k for k, _ in table])
        if xfork(special, 'html-escape'):
            for k, rep_ in table[:-1]:
                if fork(c == k):
                    out.extend(ord(x) for x in rep_)
                    break
            else:
                out.extend(ord(x) for x in table[-1][1])
        else:
            out.append(c)
    return mk(out)


_FUNC_MODELS[_html.escape] = _m_html_escape


class JsonText:
    """result of json.dumps on a tree with symbolic leaves: only checked for serialisability, then passed through"""

    def __init__(self, tree):
        self.tree = tree

    def encode(self, *a):
        return EncodedStr(self)


def _json_check(v, depth=0):
    v = force(v)
    if v is None or isinstance(v, (bool, int, float, str, SStr, SInt, SBool)):
        return
    if isinstance(v, (list, tuple)):
        for e in v:
            _json_check(e, depth + 1)
        return
    if isinstance(v, dict):
        for k, e in v.items():
            if not isinstance(force(k), (str, SStr, int, float, bool, SInt)) and k is not None:
                raise TypeError('keys must be str, int, float, bool or None, not %s' % type(k).__name__)
            _json_check(e, depth + 1)
        return
    raise TypeError('Object of type %s is not JSON serializable' % _pytype_name(v))


def _m_json_dumps(obj, **kw):
    if not deep_sym(obj):
        return _json.dumps(obj, **kw)
    _json_check(obj)
    if kw.get('sort_keys') and isinstance(obj, (list, dict)):
        pass     # keys of the result dictionaries are concrete strings in the application
    return JsonText(obj)


_FUNC_MODELS[_json.dumps] = _m_json_dumps


class LazySel:
    """a concrete nested sequence indexed by a symbolic int: rows[idx] where rows' elements are sequences"""

    def __init__(self, rows, idx):
        self.rows, self.idx = rows, idx

    def __len__(self):
        n = len(self.rows[0])
        if any(len(r) != n for r in self.rows):
            raise Unsupported('LazySel ragged')
        return n

    def __iter__(self):
        for j in range(len(self)):
            yield getitem(self, j)

    def index(self, v):
        if not _is_plain_int(v):
            raise Unsupported('LazySel.index of symbolic')
        vals = []
        for r in self.rows:
            if v not in r:
                raise Unsupported('LazySel.index: value missing from a row')
            vals.append(list(r).index(v))
        return SInt(_sel(self.idx, vals))


class RT:
    @staticmethod
    def truth(x):
        if isinstance(x, SBool):
            return fork(x.z)
        if isinstance(x, SInt):
            return fork(x.z != 0)
        if isinstance(x, SBV):
            return fork(x.nonzero())
        if isinstance(x, SBytes):
            return len(x) > 0
        if isinstance(x, (LazyDec, LazyBigInt)):
            return RT.truth(x.force() if isinstance(x, LazyBigInt) else True)
        return bool(x)

    @staticmethod
    def truth_guard(x):
        if isinstance(x, SBool):
            return fork(x.z, prefer=False)
        if isinstance(x, SInt):
            return fork(x.z != 0, prefer=False)
        if isinstance(x, SBV):
            return fork(x.nonzero(), prefer=False)
        return RT.truth(x)

    @staticmethod
    def filter_truth(x):
        """truth of a comprehension filter: dropping an element is the budgeted branch"""
        if isinstance(x, SBool):
            return not xfork(z3.Not(x.z), 'filtered')
        return RT.truth(x)

    @staticmethod
    def not_(x):
        if isinstance(x, SBool):
            return SBool(z3.Not(x.z))
        if isinstance(x, SInt):
            return SBool(x.z == 0)
        if isinstance(x, SBV):
            return SBool(x.z == 0)
        if isinstance(x, (LazyDec, LazyBigInt)):
            return RT.not_(force(x))
        return not x

    @staticmethod
    def ifexp(c, fa, fb):
        """x if c else y  with if-conversion when both arms are cheap symbolic ints / equal-length strings"""
        if isinstance(c, SBV):
            c = SBool(c.nonzero())
        if not isinstance(c, (SBool, SInt)):
            return fa() if RT.truth(c) else fb()
        cz = zbool(c)
        cs = z3.simplify(cz)
        if z3.is_true(cs):
            return fa()
        if z3.is_false(cs):
            return fb()
        if cs.get_id() in CUR.memo:
            return fa() if CUR.memo[cs.get_id()] else fb()
        st = CUR
        st.nofork = getattr(st, 'nofork', 0) + 1
        try:
            try:
                a = fa()
                b = fb()
            except NoForkNeeded:
                a = b = NoForkNeeded
            except Exception:
                a = b = NoForkNeeded
        finally:
            st.nofork -= 1
        if a is not NoForkNeeded:
            if isinstance(a, (int, SInt, SBool)) and isinstance(b, (int, SInt, SBool)) and not (isinstance(a, bool) ^ isinstance(b, bool)):
                if isinstance(a, (bool, SBool)) and isinstance(b, (bool, SBool)):
                    return SBool(z3.If(cz, zbool(a), zbool(b)))
                return SInt(z3.If(cz, zint(a), zint(b)))
            if isinstance(a, (str, SStr)) and isinstance(b, (str, SStr)) and len(a) == len(b):
                ac, bc = SStr.of(a).chars, SStr.of(b).chars
                return mk([x if (isinstance(x, int) and isinstance(y, int) and x == y) else z3.If(cz, x, y) for x, y in zip(ac, bc)])
        return fa() if fork(cz) else fb()

    @staticmethod
    def fstring(parts):
        if not deep_sym(parts):
            return ''.join(p if isinstance(p, str) else format(p[0], p[1]) for p in parts)
        out = []
        for p in parts:
            out.extend(SStr.of(p if isinstance(p, str) else format_value(p[0], p[1])).chars)
        return mk(out)

    @staticmethod
    def iop(op, l, r):
        if isinstance(l, list) and op == 'Add':
            l += r
            return l
        if isinstance(l, (dict, set)) and op in ('BitOr', 'BitAnd', 'Sub', 'BitXor'):
            return _IBIN[op](l, r)
        return RT.binop(op, l, r)

    @staticmethod
    def setitem(d, k, v):
        k = force(k)
        if isinstance(k, SYM_TYPES) and isinstance(d, dict):
            k = concretize(k)
        elif isinstance(k, SInt) and isinstance(d, list):
            k = concretize(k)
        d[k] = v

    @staticmethod
    def augitem(d, k, op, v):
        k = force(k)
        if isinstance(k, SYM_TYPES) and isinstance(d, (dict, list)):
            k = concretize(k)
        d[k] = RT.binop(op, getitem(d, k), v)

    @staticmethod
    def boolop(kind, first, *rest):
        v = first
        for f in rest:
            if not isinstance(v, SYM_TYPES):
                # concrete operand: ordinary short-circuit
                if bool(v) == (kind == 'or'):
                    return v
                v = f()
                continue
            if kind == 'or':
                v = RT.ifexp(v, (lambda v=v: v), f)
            else:
                v = RT.ifexp(v, f, (lambda v=v: v))
        return v

    @staticmethod
    def cur(loc, names):
        return tuple(loc.get(n, UNBOUND) for n in names)

    @staticmethod
    def ifstmt(c, fa, fb, cur):
        if not isinstance(c, (SBool, SInt)):
            return _unpoison((fa if RT.truth(c) else fb)(*cur))
        cz = zbool(c)
        cs = simp(cz)
        if z3.is_true(cs):
            return fa(*cur)
        if z3.is_false(cs):
            return fb(*cur)
        st = CUR
        if cs.get_id() in st.memo:
            return (fa if st.memo[cs.get_id()] else fb)(*cur)
        if any(isinstance(v, (list, dict, set, bytearray)) for v in cur):
            return (fa if fork(cz) else fb)(*cur)
        st.nofork = getattr(st, 'nofork', 0) + 1
        a = b = None
        try:
            try:
                a = fa(*cur)
                b = fb(*cur)
            except NoForkNeeded:
                a = None
            except Exception:
                a = None
        finally:
            st.nofork -= 1
        if a is not None:
            out = []
            for x, y in zip(a, b):
                m = _merge(cz, x, y)
                if m is _NOMERGE:
                    out = None
                    break
                out.append(m)
            if out is not None:
                return tuple(out)
        return (fa if fork(cz) else fb)(*cur)

    @staticmethod
    def cmp(op, l, r):
        l = force(l)
        r = force(r)
        if op == 'In':
            return contains(r, l)
        if op == 'NotIn':
            return RT.not_(contains(r, l))
        if op == 'Is':
            return l is r
        if op == 'IsNot':
            return l is not r
        if isinstance(l, SDate) or isinstance(r, SDate):
            if not isinstance(l, SDate):
                l, r = r, l
                op = {'Lt': 'Gt', 'LtE': 'GtE', 'Gt': 'Lt', 'GtE': 'LtE'}.get(op, op)
            return getattr(l, '__%s__' % _OPS[op])(r)
        if not (sym(l) or sym(r)):
            if deep_sym(l) or deep_sym(r):
                return seq_cmp(op, l, r)
            return getattr(_op, _OPS[op])(l, r)
        if isinstance(l, (str, SStr)) and isinstance(r, (str, SStr)):
            l = SStr.of(l)
            return getattr(l, '__%s__' % _OPS[op])(r)
        if isinstance(l, SBV) or isinstance(r, SBV):
            return bv_cmp(op, l, r)
        if isinstance(l, SBytes) or isinstance(r, SBytes):
            if op == 'Eq':
                return l == r if isinstance(l, SBytes) else r == l
            if op == 'NotEq':
                return l != r if isinstance(l, SBytes) else r != l
            raise Unsupported('ordering of symbolic bytes')
        if isinstance(l, (int, SInt, SBool)) and isinstance(r, (int, SInt, SBool)):
            if not isinstance(l, SInt):
                l = SInt(zint(l))
            return getattr(l, '__%s__' % _OPS[op])(r)
        if isinstance(l, float) or isinstance(r, float):
            raise Unsupported('float comparison with symbolic')
        # mixed types
        if op == 'Eq':
            return False
        if op == 'NotEq':
            return True
        raise TypeError('unorderable types')

    @staticmethod
    def binop(op, l, r):
        if not (isinstance(l, SYM_TYPES) or isinstance(r, SYM_TYPES)):
            if op == 'Mod' and isinstance(l, str) and deep_sym(r):
                return fmt_percent(l, r)
            return _BIN[op](l, r)     # includes list/tuple concatenation or repetition with symbolic elements
        if op == 'Mod' and isinstance(l, str):
            return fmt_percent(l, r)
        if op == 'Mod' and isinstance(l, SStr):
            raise Unsupported('symbolic format string')
        if op == 'Mod' and isinstance(l, LazyBigInt):
            return l.mod(r)
        l = force(l)
        r = force(r)
        if isinstance(l, float) or isinstance(r, float) or op == 'Div':
            raise Unsupported('float arithmetic with symbolic')
        if isinstance(l, SBytes) or isinstance(r, SBytes):
            if op == 'Add':
                return SBytes.of(l) + SBytes.of(r)
            if op == 'Mult':
                return l * r if isinstance(l, SBytes) else r * l
            raise TypeError('unsupported operand type(s) for %s' % op)
        if op in ('BitAnd', 'BitOr', 'BitXor', 'LShift', 'RShift'):
            return bv_binop(op, l, r)
        if isinstance(l, SBV):
            l = l.to_int()      # arithmetic leaves the bit-vector world (Python ints do not wrap)
        if isinstance(r, SBV):
            r = r.to_int()
        if isinstance(l, (str, SStr)) or isinstance(r, (str, SStr)):
            if op == 'Add' and isinstance(l, (str, SStr)) and isinstance(r, (str, SStr)):
                return SStr.of(l) + r
            if op == 'Mult':
                s, n = (l, r) if isinstance(l, (str, SStr)) else (r, l)
                if isinstance(n, int):
                    return SStr.of(s) * n
                raise Unsupported('str * symbolic int')
            raise TypeError('unsupported operand type(s) for %s' % op)
        if isinstance(l, (tuple, list)) or isinstance(r, (tuple, list)):
            if isinstance(l, (tuple, list)) and isinstance(r, (tuple, list)) and op == 'Add':
                return l + r
            raise Unsupported('sequence %s symbolic' % op)
        if isinstance(l, SDate) or isinstance(r, SDate):
            raise Unsupported('date arithmetic')
        if not isinstance(l, (int, SInt, SBool)) or not isinstance(r, (int, SInt, SBool)):
            raise TypeError('unsupported operand type(s) for %s: %s and %s' % (op, type(l).__name__, type(r).__name__))
        if isinstance(l, (int, SBool)):
            l = SInt(zint(l))
        if isinstance(r, SBool):
            r = SInt(zint(r))
        if op == 'Pow':
            if isinstance(r, int) and 0 <= r <= 8:
                acc = z3.IntVal(1)
                for _ in range(r):
                    acc = acc * l.z
                return SInt(acc)
            if isinstance(r, SInt) and z3.is_int_value(z3.simplify(l.z)):
                base = z3.simplify(l.z).as_long()
                # base ** symbolic exponent: bounded table (exponent must be in 0..40)
                if not fork(z3.And(r.z >= 0, r.z <= 40)):
                    raise Unsupported('pow exponent out of range')
                val = z3.IntVal(base ** 40)
                for k in reversed(range(40)):
                    val = z3.If(r.z == k, base ** k, val)
                return SInt(val)
            raise Unsupported('pow')
        return _BIN[op](l, r)

    @staticmethod
    def call(f, *args, **kw):
        m = BUILTIN_MODELS.get(f) if isinstance(f, (types.BuiltinFunctionType, type)) else None
        if m is not None:
            if f in (sum, all, any) or deep_sym(args) or deep_sym(kw):
                if f is int and args and isinstance(args[0], LazyDec):
                    return LazyBigInt(args[0])
                return m(*args, **kw)
            return f(*args, **kw)
        if is_transformed(f):
            if isinstance(f, types.FunctionType):
                ENCODED.add(f.__module__ + '.' + f.__qualname__)
            return f(*args, **kw)
        if f in _FUNC_MODELS:
            return _FUNC_MODELS[f](*args, **kw)
        if deep_sym(args) or deep_sym(kw):
            if f in _PASSIVE:
                return f(*args, **kw)
            if isinstance(f, type) and issubclass(f, BaseException):
                return f(*args, **kw)
            raise Unsupported('call of unmodelled %s with symbolic argument' % getattr(f, '__qualname__', f))
        return f(*args, **kw)

    @staticmethod
    def callm(recv, name, *args, **kw):
        if recv is _dt and name == 'date' and deep_sym(args):
            return SDate.make(*args)
        if recv is _dt.date and name == 'today':
            return sym_today()
        if recv is _dt.datetime and name in ('now', 'today', 'utcnow'):
            return sym_today()
        if recv is _dt.datetime and name == 'strptime' and deep_sym(args):
            return m_strptime(*args)
        if recv is _decimal and name == 'Decimal' and deep_sym(args):
            return SDecimal.of_text(args[0])
        if recv is _dt.date and deep_sym(args) and name == '__call__':
            return SDate.make(*args)
        if recv is _calendar and name == 'monthrange' and deep_sym(args):
            y, m = zint(args[0]), zint(args[1])
            if not fork(z3.And(y >= 1, y <= 9999, m >= 1, m <= 12)):
                raise ValueError('bad month number; must be 1-12')   # calendar.IllegalMonthError is a ValueError
            return (Unsupported_value('weekday'), SInt(_dim(y, m)))
        if isinstance(recv, LazyDec):
            recv = recv.force()
        if isinstance(recv, LazyBigInt):
            recv = recv.force()
        if isinstance(recv, SYM_TYPES):
            args = [force(a) for a in args]
            meth = getattr(recv, name, None)
            if meth is None:
                raise AttributeError("'%s' object has no attribute '%s'" % (_pytype_name(recv), name))
            return meth(*args, **kw)
        if isinstance(recv, types.ModuleType):
            f = getattr(recv, name)
            return RT.call(f, *args, **kw)
        if isinstance(recv, str):
            if name == 'join':
                items = list(args[0])
                if recv == '' and any(isinstance(x, LazyDec) for x in items):
                    pieces = []
                    for x in items:
                        pieces.extend(x.pieces if isinstance(x, LazyDec) else [x])
                    return LazyDec(pieces)
                if deep_sym(items):
                    return str_method(recv, name, (items,), kw)
                return recv.join(items)
            if deep_sym(args) or deep_sym(kw):
                return str_method(recv, name, args, kw)
            return getattr(recv, name)(*args, **kw)
        if isinstance(recv, dict):
            if hasattr(recv, '__sx_contains__'):
                return getattr(recv, name)(*args, **kw)
            if name == 'get' and args and deep_sym(args[0]):
                return dict_get(recv, *args)
            if name in ('update', 'items', 'keys', 'values', 'copy', 'setdefault', 'pop') and not (args and isinstance(force(args[0]), SYM_TYPES)):
                return getattr(recv, name)(*args, **kw)
            if deep_sym(args[:1]):
                raise Unsupported('dict.%s with symbolic key' % name)
            return getattr(recv, name)(*args, **kw)
        if isinstance(recv, (SPattern, SMatch, SDate, ReModule)):
            return getattr(recv, name)(*args, **kw)
        if isinstance(recv, (list, tuple)):
            if name in ('index', 'count', 'remove') and deep_sym(args):
                raise Unsupported('list.%s with symbolic' % name)
            return getattr(recv, name)(*args, **kw)
        f = getattr(recv, name)
        if deep_sym(args) or deep_sym(kw):
            if is_transformed(f):
                return f(*args, **kw)
            if f in _FUNC_MODELS:
                return _FUNC_MODELS[f](*args, **kw)
            if name in _PASSIVE_METHODS:
                return f(*args, **kw)
            raise Unsupported('method %s.%s with symbolic argument' % (type(recv).__name__, name))
        if is_transformed(f) and isinstance(f, (types.FunctionType, types.MethodType)):
            ENCODED.add(getattr(f, '__module__', '?') + '.' + getattr(f, '__qualname__', name))
        return f(*args, **kw)

    getitem = staticmethod(lambda a, i: getitem(a, i))
    RE = RE


class _Unbound(_UnsupportedValueBase if False else object):
    """value of a local variable that is not bound; any use aborts the path as unsupported"""

    def _no(self, *a, **k):
        raise Unsupported('use of a possibly-unbound local after if-conversion')
    __bool__ = __int__ = __index__ = __eq__ = __ne__ = __lt__ = __add__ = __radd__ = __hash__ = __str__ = __len__ = __iter__ = __getitem__ = _no

    def __repr__(self):
        return '<unbound>'


UNBOUND = _Unbound()
_NOMERGE = object()


def _unpoison(t):
    return t


def _merge(cz, x, y):
    if x is y:
        return x
    if x is UNBOUND or y is UNBOUND:
        return _NOMERGE
    x, y = force(x), force(y)
    if isinstance(x, (bool, SBool)) and isinstance(y, (bool, SBool)):
        return SBool(z3.If(cz, zbool(x), zbool(y)))
    if isinstance(x, (int, SInt)) and isinstance(y, (int, SInt)) and not isinstance(x, bool) and not isinstance(y, bool):
        if isinstance(x, int) and isinstance(y, int) and x == y:
            return x
        return SInt(z3.If(cz, zint(x), zint(y)))
    if isinstance(x, (str, SStr)) and isinstance(y, (str, SStr)) and len(x) == len(y):
        xc, yc = SStr.of(x).chars, SStr.of(y).chars
        return mk([p if (isinstance(p, int) and isinstance(q, int) and p == q) else z3.If(cz, p, q) for p, q in zip(xc, yc)])
    if (isinstance(x, SBV) or isinstance(y, SBV)) and isinstance(x, (SBV, int)) and isinstance(y, (SBV, int)) and not isinstance(x, bool) and not isinstance(y, bool):
        try:
            (a, ba), (b, bb) = _tobv(x), _tobv(y)
        except Unsupported:
            return _NOMERGE
        return SBV(z3.If(cz, a, b), max(ba, bb))
    if type(x) is type(y) and not isinstance(x, SYM_TYPES):
        try:
            if x == y:
                return x
        except BaseException:
            pass
    return _NOMERGE


def concretize(x, limit=48):
    """turn a symbolic str / int into a concrete one by forking over its possible values (at most `limit`)"""
    st = CUR
    for _ in range(limit):
        m = st.model
        if m is None:
            r = st.check()
            if r == z3.unsat:
                raise Infeasible('infeasible')
            if r != z3.sat:
                raise Unsupported('concretize: solver returned unknown')
            m = st.model = st.last_model()
        val = model_val(m, x)
        if isinstance(x, SStr):
            cond = x._eqz(val)
        elif isinstance(x, SInt):
            cond = x.z == val
        else:
            raise Unsupported('concretize %s' % type(x).__name__)
        if fork(cond):
            return val
    raise Unsupported('concretize: more than %d values' % limit)


def _pytype_name(x):
    return {'SStr': 'str', 'SInt': 'int', 'SBool': 'bool', 'SDate': 'datetime.date'}.get(type(x).__name__, type(x).__name__)


class NoForkNeeded(BaseException):
    pass


class _UnsupportedValue:
    """placeholder for a value the models do not compute; any use is Unsupported"""

    def __init__(self, what):
        self.what = what

    def _no(self, *a, **k):
        raise Unsupported('use of unmodelled value: ' + self.what)
    __bool__ = __int__ = __index__ = __eq__ = __lt__ = __add__ = __radd__ = __hash__ = __str__ = _no


def Unsupported_value(what):
    return _UnsupportedValue(what)


def seq_cmp(op, l, r):
    """== / != of tuples or lists that contain symbolic elements"""
    if op not in ('Eq', 'NotEq'):
        raise Unsupported('ordering of sequences with symbolic elements')
    if type(l) is not type(r) or not isinstance(l, (tuple, list)):
        res = z3.BoolVal(False)
    elif len(l) != len(r):
        res = z3.BoolVal(False)
    else:
        res = z3.And([zbool(RT.cmp('Eq', a, b)) for a, b in zip(l, r)]) if l else z3.BoolVal(True)
    return SBool(res if op == 'Eq' else z3.Not(res))


def _dim(y, m):
    leap = z3.And(y % 4 == 0, z3.Or(y % 100 != 0, y % 400 == 0))
    return z3.If(m == 2, z3.If(leap, 29, 28), z3.If(z3.Or(m == 4, m == 6, m == 9, m == 11), 30, 31))


class SDate:
    """model of datetime.date (and of the date part of datetime.datetime.now())"""

    def __init__(self, y, m, d):
        self.y, self.m, self.d = y, m, d

    @staticmethod
    def make(y, m, d):
        for v in (y, m, d):
            if not isinstance(v, (int, SInt, SBool)):
                raise TypeError('an integer is required')
        y, m, d = zint(y), zint(m), zint(d)
        ok = z3.And(y >= 1, y <= 9999, m >= 1, m <= 12, d >= 1, d <= _dim(y, m))
        if fork(ok):
            return SDate(y, m, d)
        raise ValueError('day is out of range for month')

    @staticmethod
    def of(x):
        if isinstance(x, SDate):
            return x
        if isinstance(x, _dt.datetime):
            raise Unsupported('datetime vs SDate')
        if isinstance(x, _dt.date):
            return SDate(z3.IntVal(x.year), z3.IntVal(x.month), z3.IntVal(x.day))
        raise TypeError("can't compare datetime.date to %s" % type(x).__name__)

    year = property(lambda s: SInt(s.y))
    month = property(lambda s: SInt(s.m))
    day = property(lambda s: SInt(s.d))

    def date(self):
        return self

    def replace(self, year=None, month=None, day=None):
        y = zint(year) if year is not None else self.y
        m = zint(month) if month is not None else self.m
        d = zint(day) if day is not None else self.d
        ok = z3.And(y >= 1, y <= 9999, m >= 1, m <= 12, d >= 1, d <= _dim(y, m))
        if fork(ok):
            return SDate(y, m, d)
        raise ValueError('day is out of range for month')

    def strftime(self, fmt):
        out = []
        i = 0
        while i < len(fmt):
            ch = fmt[i]
            if ch != '%':
                out.append(ord(ch))
                i += 1
                continue
            code = fmt[i + 1]
            i += 2
            if code == 'Y':
                # CPython (glibc) does not zero-pad years below 1000
                width = [(self.y >= 1000, 4), (self.y >= 100, 3), (self.y >= 10, 2)]
                n = 1
                for cond, w in width:
                    if fork(cond):
                        n = w
                        break
                out.extend(48 + (self.y / (10 ** (n - 1 - k))) % 10 for k in range(n))
            elif code in 'mdy':
                v = {'m': self.m, 'd': self.d, 'y': self.y % 100}[code]
                out.extend([48 + (v / 10) % 10, 48 + v % 10])
            elif code == '%':
                out.append(37)
            else:
                raise Unsupported('strftime %' + code)
        return mk(out)

    def _key(self):
        return self.y * 10000 + self.m * 100 + self.d

    def __lt__(s, o): return SBool(s._key() < SDate.of(o)._key())
    def __le__(s, o): return SBool(s._key() <= SDate.of(o)._key())
    def __gt__(s, o): return SBool(s._key() > SDate.of(o)._key())
    def __ge__(s, o): return SBool(s._key() >= SDate.of(o)._key())
    def __eq__(s, o): return SBool(s._key() == SDate.of(o)._key()) if isinstance(o, (SDate, _dt.date)) else False
    def __ne__(s, o): return SBool(s._key() != SDate.of(o)._key()) if isinstance(o, (SDate, _dt.date)) else True

    def __hash__(self):
        raise Unsupported('hash of SDate')

    def concrete(self, model):
        g = lambda t: model.eval(t, model_completion=True).as_long()
        return _dt.date(g(self.y), g(self.m), g(self.d))


class SDateTime(SDate):
    """model of datetime.datetime as produced by strptime (naive, fields symbolic)"""

    def __init__(self, y, m, d, H=0, M=0, S=0):
        SDate.__init__(self, y, m, d)
        self.H, self.M, self.S = (z3.IntVal(v) if isinstance(v, int) else v for v in (H, M, S))

    hour = property(lambda s: SInt(s.H))
    minute = property(lambda s: SInt(s.M))
    second = property(lambda s: SInt(s.S))

    def date(self):
        return SDate(self.y, self.m, self.d)

    def replace(self, year=None, month=None, day=None):
        y = zint(year) if year is not None else self.y
        m = zint(month) if month is not None else self.m
        d = zint(day) if day is not None else self.d
        ok = z3.And(y >= 1, y <= 9999, m >= 1, m <= 12, d >= 1, d <= _dim(y, m))
        if fork(ok):
            return SDateTime(y, m, d, self.H, self.M, self.S)
        raise ValueError('day is out of range for month')

    def __sub__(self, other):
        if isinstance(other, _dt.timedelta) and other == _dt.timedelta(days=1):
            # one day back
            first = self.d == 1
            pm = z3.If(self.m == 1, 12, self.m - 1)
            py = z3.If(self.m == 1, self.y - 1, self.y)
            if not fork(z3.Or(z3.Not(first), py >= 1)):
                raise OverflowError('date value out of range')
            return SDateTime(z3.If(first, py, self.y), z3.If(first, pm, self.m), z3.If(first, _dim(py, pm), self.d - 1), self.H, self.M, self.S)
        raise Unsupported('datetime arithmetic')

    def _key(self):
        return ((((self.y * 100 + self.m) * 100 + self.d) * 100 + self.H) * 100 + self.M) * 100 + self.S

    def strftime(self, fmt):
        out = []
        i = 0
        while i < len(fmt):
            if fmt[i] != '%':
                out.append(ord(fmt[i]))
                i += 1
                continue
            code = fmt[i + 1]
            i += 2
            if code in 'HMS':
                v = {'H': self.H, 'M': self.M, 'S': self.S}[code]
                out.extend([48 + (v / 10) % 10, 48 + v % 10])
            else:
                out.extend(SStr.of(SDate.strftime(self, '%' + code)).chars)
        return mk(out)

    def concrete(self, model):
        g = lambda t: model.eval(t, model_completion=True).as_long()
        return _dt.datetime(g(self.y), g(self.m), g(self.d), g(self.H), g(self.M), g(self.S))


_STRPTIME_PATTERNS = {}


def m_strptime(text, fmt):
    """datetime.datetime.strptime for formats made of %y %Y %m %d %H %M %S: the interpreter's own regular expression for
    the format (from _strptime) is run by the symbolic regex matcher, the captured fields are converted with int()"""
    text = force(text)
    if not isinstance(text, SStr):
        return _dt.datetime.strptime(text, fmt)
    fields = []
    i = 0
    while i < len(fmt):
        if fmt[i] != '%' or i + 1 >= len(fmt) or fmt[i + 1] not in 'yYmdHMS':
            raise Unsupported('strptime format %r' % fmt)
        fields.append(fmt[i + 1])
        i += 2
    if len(set(fields)) != len(fields) or ('y' in fields and 'Y' in fields):
        raise Unsupported('strptime format %r' % fmt)
    sp = _STRPTIME_PATTERNS.get(fmt)
    if sp is None:
        import _strptime
        sp = _STRPTIME_PATTERNS[fmt] = SPattern(_strptime._TimeRE_cache.pattern(fmt), real_re.IGNORECASE)
    mt = sp.match(text)
    if mt is None:
        raise ValueError('time data does not match format')
    if mt.end() != len(text):
        raise ValueError('unconverted data remains')
    vals = {}
    for f in fields:
        v = m_int(mt.group(f))
        vals[f] = v.z if isinstance(v, SInt) else z3.IntVal(int(v))
    y = vals.get('Y')
    if y is None:
        yy = vals.get('y', z3.IntVal(0))
        y = z3.If(yy <= 68, 2000 + yy, 1900 + yy) if 'y' in vals else z3.IntVal(1900)
    m = vals.get('m', z3.IntVal(1))
    d = vals.get('d', z3.IntVal(1))
    H, M, S = vals.get('H', z3.IntVal(0)), vals.get('M', z3.IntVal(0)), vals.get('S', z3.IntVal(0))
    ok = z3.And(m >= 1, m <= 12, d >= 1, d <= _dim(y, m), H <= 23, M <= 59, S <= 59, y >= 1)
    if not fork(ok):
        raise ValueError('time data does not match format')
    return SDateTime(y, m, d, H, M, S)


class SDecimal:
    """model of decimal.Decimal built from a string of ASCII digits with at most one '.' at a concrete position"""

    def __init__(self, ip, fp):
        self.ip, self.fp = ip, fp      # lists of character terms (digits) before / after the point

    @staticmethod
    def of_text(text):
        text = force(text)
        if not isinstance(text, SStr):
            import decimal
            return decimal.Decimal(text)
        dots = [k for k, c in enumerate(text.chars) if isinstance(c, int) and c == 46]
        sym_dot = [c for c in text.chars if not isinstance(c, int)]
        if len(dots) > 1:
            import decimal
            raise decimal.InvalidOperation('invalid literal')
        chars = text.chars
        ip = chars[:dots[0]] if dots else chars
        fp = chars[dots[0] + 1:] if dots else []
        if not ip and not fp:
            import decimal
            raise decimal.InvalidOperation('invalid literal')
        conds = []
        for c in ip + fp:
            if isinstance(c, int):
                if not (48 <= c <= 57):
                    raise Unsupported('Decimal() of a literal with a non-digit concrete character')
            else:
                conds.append(z3.And(c >= 48, c <= 57))
        if conds and not fork(z3.And(conds)):
            raise Unsupported('Decimal() of a symbolic string with a non-ASCII-digit character (signs, exponents, Unicode digits not modelled)')
        return SDecimal(ip, fp)

    def coefficient(self):
        acc = z3.IntVal(0)
        for c in self.ip + self.fp:
            acc = acc * 10 + ((c if isinstance(c, int) else c) - 48)
        return acc

    def __eq__(self, o):
        if isinstance(o, SDecimal):
            # numeric equality: scale to the larger number of fraction digits
            a, b = self.coefficient() * 10 ** max(0, len(o.fp) - len(self.fp)), o.coefficient() * 10 ** max(0, len(self.fp) - len(o.fp))
            return SBool(a == b)
        import decimal
        if isinstance(o, (int, decimal.Decimal)):
            d = decimal.Decimal(o)
            sign, digits, exp = d.as_tuple()
            if sign or not isinstance(exp, int):
                return SBool(z3.BoolVal(False)) if True else False
            co = int(''.join(map(str, digits)) or '0')
            k = max(0, -exp)
            a = self.coefficient() * 10 ** max(0, k - len(self.fp))
            b = co * 10 ** max(0, exp) * 10 ** max(0, len(self.fp) - k)
            return SBool(a == b)
        return False

    def __ne__(self, o):
        r = self.__eq__(o)
        return SBool(z3.Not(r.z)) if isinstance(r, SBool) else (not r)

    def __hash__(self):
        raise Unsupported('hash of SDecimal')

    def to_str(self):
        """str(Decimal): leading zeros of the integer part dropped; scientific notation when the adjusted exponent < -6"""
        ip, fp = list(self.ip), list(self.fp)
        # number of leading zeros of the integer part (fork)
        k = 0
        while k < len(ip):
            c = ip[k]
            z = (c == 48) if isinstance(c, int) else fork(c == 48)
            if not z:
                break
            k += 1
        ip = ip[k:]
        if ip:
            return mk(ip + ([46] + fp if fp else []))
        # integer part is zero: 0.xxx unless the leading fraction zeros push the adjusted exponent below -6
        j = 0
        while j < len(fp):
            c = fp[j]
            z = (c == 48) if isinstance(c, int) else fork(c == 48)
            if not z:
                break
            j += 1
        if j == len(fp):
            # the value is zero: '0', '0.0' .. '0.000000', then '0E-7' ...
            if len(fp) <= 6:
                return mk([48] + ([46] + fp if fp else []))
            return mk([48, 69, 45] + [ord(ch) for ch in str(len(fp))])
        if j + 1 <= 6 or True:
            # adjusted exponent = -(j + 1); plain notation while exponent >= -6, i.e. len(fp) <= ... python rule: exp >= -6 uses
            # the exponent of the least significant digit: leftdigits = len(coefficient digits) + exponent > -6
            ndig = len(fp) - j
            leftdigits = ndig - len(fp)
            if leftdigits > -6:
                return mk([48, 46] + fp)
            # scientific: d.ddE-n
            digits = fp[j:]
            e = -(j + 1)
            out = [digits[0]] + ([46] + digits[1:] if len(digits) > 1 else []) + [69, 45] + [ord(ch) for ch in str(-e)]
            return mk(out)

    def concrete(self, model):
        import decimal
        g = lambda c: chr(c if isinstance(c, int) else model.eval(c, model_completion=True).as_long())
        t = ''.join(g(c) for c in self.ip) + ('.' + ''.join(g(c) for c in self.fp) if self.fp else '')
        return decimal.Decimal(t)


TODAY_RANGE = (1970, 2199)


def sym_today():
    """the system date as an arbitrary valid date (environment = nondeterministic stub)"""
    st = CUR
    if 'today' not in st.notes:
        y, m, d = z3.Int('today_y'), z3.Int('today_m'), z3.Int('today_d')
        st.add(z3.And(y >= TODAY_RANGE[0], y <= TODAY_RANGE[1], m >= 1, m <= 12, d >= 1, d <= _dim(y, m)))
        fixed = CONFIG.get('today_fixed')
        if fixed is not None:
            # checks that are not about the clock pin it (and freeze the replay clock to the same date)
            st.add(z3.And(y == fixed.year, m == fixed.month, d == fixed.day))
        st.notes['today'] = SDate(y, m, d)
        st.notes.setdefault('bounded_ids', []).extend([y.get_id(), m.get_id(), d.get_id()])
    return st.notes['today']


class LazyBigInt:
    def __init__(self, dec):
        self.dec = dec

    def mod(self, m):
        if isinstance(m, int) and m > 0:
            return SInt(self.dec.fold(m))
        raise Unsupported('LazyBigInt % sym')

    def force(self):
        return self.dec.to_int()


def format_value(v, spec):
    """format(v, spec) for the specs that occur in identifier code: '', 's', 'd', '0Nd', 'Nd', ',' and ',d'"""
    v = force(v)
    if not isinstance(v, SYM_TYPES):
        return format(v, spec)
    if isinstance(v, SStr):
        if spec in ('', 's'):
            return v
        raise Unsupported('format spec %r for str' % spec)
    if isinstance(v, SBool) and spec == '':
        return m_str(v)
    if isinstance(v, (SInt, SBool)):
        v = SInt(zint(v))
        m = real_re.fullmatch(r'(0?)(\d*)(,?)(d?)', spec)
        if not m:
            raise Unsupported('format spec %r for int' % spec)
        digits = SStr.of(render_int(v))
        neg = bool(digits.chars) and digits.chars[0] == 45
        body = digits.chars[1:] if neg else digits.chars
        if m.group(3):
            grouped = []
            for k, c in enumerate(body):
                if k and (len(body) - k) % 3 == 0:
                    grouped.append(44)
                grouped.append(c)
            body = grouped
        w = int(m.group(2) or 0)
        pad = max(0, w - len(body) - (1 if neg else 0))
        if m.group(1):
            return mk(([45] if neg else []) + [48] * pad + body)
        return mk([32] * pad + ([45] if neg else []) + body)
    raise Unsupported('format of %s' % type(v).__name__)


def fmt_percent(fmt, arg):
    # support simple formats: %s, %d, %02d, %(name)s; single arg, tuple or dict
    if isinstance(arg, dict) and '%(' in fmt:
        pieces = real_re.split(r'%\((\w+)\)s', fmt)
        out = []
        for k, piece in enumerate(pieces):
            if k % 2 == 0:
                if '%' in piece.replace('%%', ''):
                    raise Unsupported('fmt %r' % fmt[:40])
                out.extend(ord(c) for c in piece.replace('%%', '%'))
            else:
                v = force(arg[piece])
                if isinstance(v, SInt):
                    v = render_int(v)
                if not isinstance(v, (str, SStr)):
                    if deep_sym(v):
                        raise Unsupported('fmt dict arg %r' % type(v))
                    v = str(v)
                out.extend(SStr.of(v).chars)
        return mk(out)
    args = arg if isinstance(arg, tuple) else (arg,)
    parts = real_re.split(r'(%0?\d*[sdxX]|%%)', fmt)
    out = []
    ai = 0
    for p in parts:
        if p == '%%':
            out.append(37)
            continue
        m = real_re.fullmatch(r'%(0?)(\d*)([sdxX])', p)
        if not m:
            if '%' in p:
                raise Unsupported('fmt %r' % fmt)
            out.extend(ord(c) for c in p)
            continue
        if ai >= len(args):
            raise TypeError('not enough arguments for format string')
        a = force(args[ai])
        ai += 1
        if m.group(3) == 'd' and isinstance(a, (str, SStr)):
            raise TypeError('%d format: a real number is required, not str')
        if m.group(3) in 'xX':
            if isinstance(a, (str, SStr)):
                raise TypeError('%x format: an integer is required, not str')
            if isinstance(a, SBool):
                a = SInt(zint(a))
            if isinstance(a, SInt):
                w0 = int(m.group(2) or 0)
                if not (m.group(1) and w0 and fork(z3.And(a.z >= 0, a.z < 16 ** w0))):
                    raise Unsupported('hex formatting of a symbolic int that may not fit the zero-padded width (%r)' % fmt)
                base = 55 if m.group(3) == 'X' else 87
                digs = [(a.z / (16 ** (w0 - 1 - k))) % 16 for k in range(w0)]
                out.extend(z3.If(d < 10, 48 + d, base + d) for d in digs)
                continue
            if isinstance(a, int):
                out.extend(ord(c) for c in ('%' + m.group(1) + m.group(2) + m.group(3)) % a)
                continue
            raise Unsupported('fmt arg %r' % type(a))
        if isinstance(a, SBool):
            a = SInt(zint(a)) if m.group(3) == 'd' else m_str(a)
        if isinstance(a, SInt):
            w0 = int(m.group(2) or 0)
            if m.group(1) and w0 and fork(z3.And(a.z >= 0, a.z < 10 ** w0)):
                # zero-padded fixed width and the value provably/possibly fits: exactly w0 digits, no fork on digit count
                a = mk([48 + (a.z / (10 ** (w0 - 1 - k))) % 10 for k in range(w0)])
            else:
                a = render_int(a)
        if isinstance(a, int) and m.group(3) == 'd':
            a = str(int(a))
        if not isinstance(a, (str, SStr)):
            if deep_sym(a):
                raise Unsupported('fmt arg %r' % type(a))
            a = str(a)
        a = SStr.of(a)
        w = int(m.group(2) or 0)
        padc = 48 if m.group(1) else 32
        if padc == 48 and m.group(3) == 's':
            padc = 32
        pad = [padc] * max(0, w - len(a))
        if padc == 48 and a.chars and not isinstance(a.chars[0], int):
            pass
        if padc == 48 and a.chars and a.chars[0] == 45:
            out.extend([45] + pad + a.chars[1:])
        else:
            out.extend(pad + a.chars)
    if ai != len(args):
        raise TypeError('not all arguments converted during string formatting')
    return mk(out)


# ----------------------------------------------------------------------------
# AST transform


class Tx(ast.NodeTransformer):
    def _rt(self, name):
        return ast.Attribute(value=ast.Name(id='__sx__', ctx=ast.Load()), attr=name, ctx=ast.Load())

    def _truth(self, e):
        return ast.Call(func=self._rt('truth'), args=[e], keywords=[])

    _depth = 0
    _ifn = 0

    _globals = ()

    def visit_FunctionDef(self, node):
        self._depth += 1
        saved = self._globals
        declared = set()
        for n in ast.walk(node):
            if isinstance(n, (ast.Global, ast.Nonlocal)):
                declared.update(n.names)
        self._globals = declared
        try:
            self.generic_visit(node)
        finally:
            self._depth -= 1
            self._globals = saved
        return node

    visit_AsyncFunctionDef = visit_FunctionDef

    def visit_Lambda(self, node):
        self.generic_visit(node)
        return node

    def _simple_block(self, stmts, names):
        for st in stmts:
            if isinstance(st, ast.Assign) and len(st.targets) == 1 and isinstance(st.targets[0], ast.Name):
                names.add(st.targets[0].id)
                val = st.value
            elif isinstance(st, ast.AugAssign) and isinstance(st.target, ast.Name):
                names.add(st.target.id)
                val = st.value
            elif isinstance(st, ast.If):
                if not self._simple_block(st.body, names) or not self._simple_block(st.orelse, names):
                    return False
                val = st.test
            elif isinstance(st, ast.Pass):
                continue
            else:
                return False
            for n in ast.walk(val):
                if isinstance(n, (ast.NamedExpr, ast.Yield, ast.YieldFrom, ast.Await, ast.Lambda)):
                    return False
        return True

    def visit_If(self, node):
        names = set()
        if self._depth > 0 and node.body and self._simple_block(node.body, names) and self._simple_block(node.orelse, names) and names and not (names & set(self._globals)):
            # if-conversion of an assignment-only `if` statement (DESIGN.md 2.4): both arms become local functions of
            # the assigned variables; __sx__.ifstmt merges their results when the test is symbolic, else runs one arm
            Tx._ifn += 1
            n = Tx._ifn
            names = sorted(names)

            def mkfn(fname, stmts):
                body = list(stmts) + [ast.Return(value=ast.Tuple(elts=[ast.Name(id=v, ctx=ast.Load()) for v in names], ctx=ast.Load()))]
                return ast.FunctionDef(name=fname, args=ast.arguments(posonlyargs=[], args=[ast.arg(arg=v) for v in names], kwonlyargs=[],
                                                                      kw_defaults=[], defaults=[]), body=body, decorator_list=[], type_params=[])
            f1 = mkfn('__sx_then_%d' % n, node.body)
            f2 = mkfn('__sx_else_%d' % n, node.orelse or [ast.Pass()])
            test = self.visit(node.test)
            f1 = self.visit(f1)
            f2 = self.visit(f2)
            cur = ast.Call(func=self._rt('cur'), args=[ast.Call(func=ast.Name(id='locals', ctx=ast.Load()), args=[], keywords=[]),
                                                       ast.Tuple(elts=[ast.Constant(v) for v in names], ctx=ast.Load())], keywords=[])
            call = ast.Call(func=self._rt('ifstmt'), args=[test, ast.Name(id=f1.name, ctx=ast.Load()), ast.Name(id=f2.name, ctx=ast.Load()), cur], keywords=[])
            assign = ast.Assign(targets=[ast.Tuple(elts=[ast.Name(id=v, ctx=ast.Store()) for v in names], ctx=ast.Store())], value=call)
            return [f1, f2, assign]
        self.generic_visit(node)
        if len(node.body) == 1 and isinstance(node.body[0], ast.Raise) and not node.orelse:
            # a guard `if cond: raise ...`: explore the non-raising side first so that accepting paths are reached early
            node.test = ast.Call(func=self._rt('truth_guard'), args=[node.test], keywords=[])
        else:
            node.test = self._truth(node.test)
        return node

    def visit_While(self, node):
        self.generic_visit(node)
        node.test = self._truth(node.test)
        return node

    def visit_IfExp(self, node):
        self.generic_visit(node)
        for sub in (node.body, node.orelse):
            for n in ast.walk(sub):
                if isinstance(n, (ast.NamedExpr, ast.Yield, ast.YieldFrom, ast.Await)):
                    node.test = self._truth(node.test)
                    return node
        noargs = ast.arguments(posonlyargs=[], args=[], kwonlyargs=[], kw_defaults=[], defaults=[])
        return ast.Call(func=self._rt('ifexp'), args=[node.test, ast.Lambda(args=noargs, body=node.body),
                                                      ast.Lambda(args=noargs, body=node.orelse)], keywords=[])

    def visit_Assert(self, node):
        self.generic_visit(node)
        node.test = self._truth(node.test)
        return node

    def visit_comprehension(self, node):
        self.generic_visit(node)
        node.ifs = [ast.Call(func=self._rt('filter_truth'), args=[i], keywords=[]) for i in node.ifs]
        return node

    def visit_BoolOp(self, node):
        self.generic_visit(node)
        # a and b  ->  (b if truth(t:=a) ... ) keep python semantics returning operands
        vals = node.values
        if not any(isinstance(n, (ast.NamedExpr, ast.Yield, ast.YieldFrom, ast.Await)) for v in vals[1:] for n in ast.walk(v)):
            noargs = ast.arguments(posonlyargs=[], args=[], kwonlyargs=[], kw_defaults=[], defaults=[])
            return ast.Call(func=self._rt('boolop'), args=[ast.Constant('and' if isinstance(node.op, ast.And) else 'or'), vals[0]] +
                            [ast.Lambda(args=noargs, body=v) for v in vals[1:]], keywords=[])
        res = vals[-1]
        for k, v in enumerate(reversed(vals[:-1])):
            tmp = '__sx_t%d_%d' % (id(node) % 100000, k)
            store = ast.NamedExpr(target=ast.Name(id=tmp, ctx=ast.Store()), value=v)
            load = ast.Name(id=tmp, ctx=ast.Load())
            if isinstance(node.op, ast.And):
                res = ast.IfExp(test=self._truth(store), body=res, orelse=load)
            else:
                res = ast.IfExp(test=self._truth(store), body=load, orelse=res)
        return res

    def visit_UnaryOp(self, node):
        self.generic_visit(node)
        if isinstance(node.op, ast.Not):
            return ast.Call(func=self._rt('not_'), args=[node.operand], keywords=[])
        return node

    def visit_Compare(self, node):
        self.generic_visit(node)
        if len(node.ops) == 1:
            return ast.Call(func=self._rt('cmp'), args=[ast.Constant(type(node.ops[0]).__name__), node.left, node.comparators[0]], keywords=[])
        # chain: a < b < c -> truth(cmp(a,b)) and cmp(b,c) with temps
        parts = []
        left = node.left
        res = None
        exprs = []
        prev = left
        for k, (op, comp) in enumerate(zip(node.ops, node.comparators)):
            if k < len(node.ops) - 1:
                tmp = '__sx_c%d_%d' % (id(node) % 100000, k)
                comp_store = ast.NamedExpr(target=ast.Name(id=tmp, ctx=ast.Store()), value=comp)
                comp_load = ast.Name(id=tmp, ctx=ast.Load())
            else:
                comp_store = comp
                comp_load = comp
            exprs.append(ast.Call(func=self._rt('cmp'), args=[ast.Constant(type(op).__name__), prev, comp_store], keywords=[]))
            prev = comp_load
        res = exprs[-1]
        for e in reversed(exprs[:-1]):
            res = ast.IfExp(test=self._truth(e), body=res, orelse=ast.Constant(False))
        return res

    def visit_BinOp(self, node):
        self.generic_visit(node)
        return ast.Call(func=self._rt('binop'), args=[ast.Constant(type(node.op).__name__), node.left, node.right], keywords=[])

    def visit_Call(self, node):
        self.generic_visit(node)
        if any(isinstance(a, ast.Starred) for a in node.args) or any(k.arg is None for k in node.keywords):
            return node
        if isinstance(node.func, ast.Attribute):
            return ast.Call(func=self._rt('callm'), args=[node.func.value, ast.Constant(node.func.attr)] + node.args, keywords=node.keywords)
        return ast.Call(func=self._rt('call'), args=[node.func] + node.args, keywords=node.keywords)

    def visit_Import(self, node):
        out = []
        for a in node.names:
            if a.name == 're':
                out.append(ast.Assign(targets=[ast.Name(id=a.asname or 're', ctx=ast.Store())], value=self._rt('RE')))
            else:
                out.append(ast.Import(names=[a]))
        return out

    def visit_JoinedStr(self, node):
        # only f-strings with constant format specs are rewritten; the format spec itself must not be visited first
        for v in node.values:
            if isinstance(v, ast.FormattedValue):
                spec = v.format_spec
                if v.conversion not in (-1, 115) or (spec is not None and not (isinstance(spec, ast.JoinedStr) and all(isinstance(x, ast.Constant) for x in spec.values))):
                    for w in node.values:
                        if isinstance(w, ast.FormattedValue):
                            w.value = self.visit(w.value)
                    return node
        parts = []
        for v in node.values:
            if isinstance(v, ast.Constant):
                parts.append(v)
            else:
                spec = v.format_spec
                spec_s = ''.join(x.value for x in spec.values) if spec is not None else ''
                parts.append(ast.Tuple(elts=[self.visit(v.value), ast.Constant(spec_s)], ctx=ast.Load()))
        return ast.Call(func=self._rt('fstring'), args=[ast.List(elts=parts, ctx=ast.Load())], keywords=[])

    def visit_Assign(self, node):
        self.generic_visit(node)
        if len(node.targets) == 1 and isinstance(node.targets[0], ast.Subscript) and not isinstance(node.targets[0].slice, ast.Slice):
            t = node.targets[0]
            return ast.Expr(value=ast.Call(func=self._rt('setitem'), args=[t.value, t.slice, node.value], keywords=[]))
        return node

    def visit_AugAssign(self, node):
        self.generic_visit(node)
        if isinstance(node.target, ast.Subscript) and not isinstance(node.target.slice, ast.Slice):
            t = node.target
            return ast.Expr(value=ast.Call(func=self._rt('augitem'), args=[t.value, t.slice, ast.Constant(type(node.op).__name__), node.value], keywords=[]))
        if isinstance(node.target, ast.Name):
            # x op= v  ->  x = binop(op, x, v)   (in-place semantics preserved for lists by binop_inplace)
            return ast.Assign(targets=[ast.Name(id=node.target.id, ctx=ast.Store())],
                              value=ast.Call(func=self._rt('iop'), args=[ast.Constant(type(node.op).__name__), ast.Name(id=node.target.id, ctx=ast.Load()), node.value], keywords=[]))
        return node

    def visit_Subscript(self, node):
        self.generic_visit(node)
        if isinstance(node.ctx, ast.Load) and not isinstance(node.slice, ast.Slice):
            return ast.Call(func=self._rt('getitem'), args=[node.value, node.slice], keywords=[])
        return node


class Loader(importlib.machinery.SourceFileLoader):
    def source_to_code(self, data, path, *, _optimize=-1):
        tree = ast.parse(data, path)
        tree = Tx().visit(tree)
        ast.fix_missing_locations(tree)
        return compile(tree, path, 'exec', dont_inherit=True, optimize=_optimize)

    def exec_module(self, module):
        module.__dict__['__sx__'] = RT
        super().exec_module(module)

    def get_code(self, fullname):
        # never use cached bytecode: the encoding is regenerated from the current source on every run
        path = self.get_filename(fullname)
        return self.source_to_code(self.get_data(path), path)


EXTRA_FILES = {}   # module name -> path, for sources outside the stdnum package (wsgi app, reference validators)


class Finder(importlib.abc.MetaPathFinder):
    def find_spec(self, fullname, path, target=None):
        if fullname in EXTRA_FILES:
            p = EXTRA_FILES[fullname]
            return importlib.util.spec_from_file_location(fullname, p, loader=Loader(fullname, p))
        if fullname != 'stdnum' and not fullname.startswith('stdnum.'):
            return None
        rel = fullname.split('.')
        base = os.path.join(REPO, *rel)
        if os.path.isdir(base) and os.path.exists(os.path.join(base, '__init__.py')):
            p = os.path.join(base, '__init__.py')
            return importlib.util.spec_from_file_location(fullname, p, loader=Loader(fullname, p), submodule_search_locations=[base])
        if os.path.exists(base + '.py'):
            return importlib.util.spec_from_file_location(fullname, base + '.py', loader=Loader(fullname, base + '.py'))
        return None


_installed = []


def install(repo=None):
    global REPO
    if repo:
        REPO = repo
    if not _installed:
        for k in [k for k in sys.modules if k == 'stdnum' or k.startswith('stdnum.')]:
            del sys.modules[k]
        f = Finder()
        sys.meta_path.insert(0, f)
        _installed.append(f)


def load_file(name, path):
    """load an arbitrary python source through the transform under module name `name`"""
    EXTRA_FILES[name] = path
    sys.modules.pop(name, None)
    return importlib.import_module(name)


# ----------------------------------------------------------------------------
# exploration driver


def symstr(n, name='s', lo=0, hi=0x10ffff):
    """fresh symbolic string of length n over code points lo..hi (constraints added to the current path)"""
    chars = [z3.Int('%s_%d' % (name, i)) for i in range(n)]
    for c in chars:
        constrain_var(c, z3.And(c >= lo, c <= hi))
        if (lo, hi) != (0, 0x10ffff):
            CUR.notes.setdefault('var_range', {})[c.get_id()] = (lo, hi)
    CUR.inputs.extend(chars)
    return SStr(chars), chars


def constrain_var(v, cond):
    """assert a constraint that mentions only variable v and remember it (used as range information by lemma proofs)"""
    st = CUR
    st.add(cond)
    k = v.get_id()
    st.var_constraints[k] = z3.And(st.var_constraints[k], cond) if k in st.var_constraints else cond


def symstr_alpha(n, alphabet, name='s'):
    """fresh symbolic string of length n over the characters of `alphabet`"""
    chars = [z3.Int('%s_%d' % (name, i)) for i in range(n)]
    cps = sorted(set(ord(a) for a in alphabet))
    for c in chars:
        constrain_var(c, in_ranges(c, _to_ranges(cps)))
        CUR.notes.setdefault('var_range', {})[c.get_id()] = (cps[0], cps[-1])
    CUR.inputs.extend(chars)
    return SStr(chars), chars


def _to_ranges(cps):
    out = []
    for cp in cps:
        if out and out[-1][1] == cp - 1:
            out[-1][1] = cp
        else:
            out.append([cp, cp])
    return [tuple(r) for r in out]


def symchar_in(name, alphabet):
    c = z3.Int(name)
    constrain_var(c, in_ranges(c, _to_ranges(sorted(set(ord(a) for a in alphabet)))))
    return c


def symint(name, lo=None, hi=None):
    v = z3.Int(name)
    if lo is not None:
        CUR.add(v >= lo)
    if hi is not None:
        CUR.add(v <= hi)
    return SInt(v)


class Limit:
    def __init__(self, remaining):
        self.remaining = remaining


def explore(run, max_paths=100000, timeout=None):
    """run(): executes the harness body with symbolic inputs (constructed inside, deterministic names).
    yields (PathState, outcome): outcome = ('ret', value) | ('exc', exception) | ('abort', Abort instance);
    finally (None, Limit) if the path or time cap was hit with work remaining."""
    global CUR
    work = [[]]
    t0 = time.time()
    npaths = 0
    while work:
        prefix = work.pop()
        st = PathState(prefix)
        CUR = st
        _fresh[0] = 0
        try:
            out = ('ret', run())
        except Abort as e:
            out = ('abort', e)
        except NoForkNeeded as e:
            out = ('abort', Unsupported('NoForkNeeded escaped'))
        except Exception as e:
            out = ('exc', e)
        except RecursionError as e:
            out = ('exc', e)
        work.extend(st.pending)
        npaths += 1
        STATS['paths'] += 1
        yield st, out
        if work and (npaths >= max_paths or (timeout and time.time() - t0 > timeout)):
            yield None, Limit(len(work))
            return
    CUR = None


def model_str(model, s):
    """concrete python str for SStr/str s under a z3 model"""
    if isinstance(s, str):
        return s
    return ''.join(chr(c if isinstance(c, int) else model.eval(c, model_completion=True).as_long()) for c in s.chars)


def model_val(model, v):
    """concrete python value of a (possibly symbolic, possibly nested) value under a model"""
    if isinstance(v, (SStr,)):
        return model_str(model, v)
    if isinstance(v, SInt):
        return model.eval(v.z, model_completion=True).as_long()
    if isinstance(v, SBool):
        return z3.is_true(model.eval(v.z, model_completion=True))
    if isinstance(v, SBV):
        return model.eval(v.z, model_completion=True).as_long()
    if isinstance(v, SBytes):
        return bytes(x if isinstance(x, int) else model.eval(x, model_completion=True).as_long() for x in v.items)
    if isinstance(v, (SDate, SDecimal)):
        return v.concrete(model)
    if isinstance(v, (LazyDec, LazyBigInt)):
        # evaluate without forking: pieces
        if isinstance(v, LazyBigInt):
            return int(model_val(model, v.dec))
        return ''.join(str(model_val(model, p)) for p in v.pieces)
    if isinstance(v, tuple):
        return tuple(model_val(model, e) for e in v)
    if isinstance(v, list):
        return [model_val(model, e) for e in v]
    if isinstance(v, dict):
        return {model_val(model, k): model_val(model, e) for k, e in v.items()}
    return v


BVW = 64


class SBV:
    """non-negative integer kept as a bit vector: result of & | ^ << >> on symbolic ints (bech32 polymod, b32decode).
    `bits` is a static upper bound of the significant bits, so that nothing is ever truncated (Python ints do not wrap)."""

    def __init__(self, z, bits):
        if bits > BVW:
            raise Unsupported('bit-vector value wider than %d bits' % BVW)
        # canonical form (bit tests become extracts, masks/shifts become concat/extract): two transcriptions of the same
        # round function then build the same hash-consed term and their agreement needs no equivalence proof
        # terms are deliberately NOT simplified: the simplifier orders commutative arguments by AST id, so two runs of the
        # same computation could end in structurally different terms; unsimplified, two transcriptions that perform the
        # same operations build the same hash-consed term and their agreement needs no equivalence proof
        self.z, self.bits = z, bits
        if CUR is not None:
            CUR.notes['bv'] = True

    def nonzero(self):
        return self.z != 0

    def to_int(self):
        return SInt(z3.BV2Int(self.z, False))


_I2B = {}


def _int_term_to_bv(e):
    """structural translation of an Int term made of numerals and if-then-else (table look-ups) into a bit vector"""
    k = e.get_id()
    r = _I2B.get(k)
    if r is not None:
        return r[1]
    if z3.is_int_value(e):
        v = e.as_long()
        out = (z3.BitVecVal(v, BVW), v.bit_length()) if 0 <= v < 2 ** (BVW - 1) else None
    elif z3.is_app_of(e, z3.Z3_OP_ITE):
        c, a, b = e.children()
        ta, tb = _int_term_to_bv(a), _int_term_to_bv(b)
        out = (z3.If(c, ta[0], tb[0]), max(ta[1], tb[1])) if ta is not None and tb is not None else None
    else:
        out = None
    _I2B[k] = (e, out)
    return out


def _tobv(x):
    if isinstance(x, SBV):
        return x.z, x.bits
    if isinstance(x, bool):
        return z3.BitVecVal(int(x), BVW), 1
    if isinstance(x, int):
        if x < 0 or x >= 2 ** (BVW - 1):
            raise Unsupported('bit operation on negative / wide constant')
        return z3.BitVecVal(x, BVW), x.bit_length()
    if isinstance(x, SBool):
        return z3.If(x.z, z3.BitVecVal(1, BVW), z3.BitVecVal(0, BVW)), 1
    if isinstance(x, SInt):
        t = _int_term_to_bv(x.z)
        if t is not None:
            return t
        rng = CUR.notes.get('var_range', {}).get(x.z.get_id()) if CUR is not None else None
        if rng is not None and 0 <= rng[0] and rng[1] < 2 ** 23:
            return z3.Int2BV(x.z, BVW), int(rng[1]).bit_length()      # cut-point variable with a known small range
        # range obligation: the value must fit (checked by the solver, forks if it may not)
        if not fork(z3.And(x.z >= 0, x.z < 2 ** 23)):
            raise Unsupported('bit operation on out-of-range symbolic int')
        return z3.Int2BV(x.z, BVW), 23
    raise Unsupported('bit operation on %s' % type(x).__name__)


def bv_binop(op, l, r):
    if op in ('LShift', 'RShift'):
        if isinstance(r, SYM_TYPES) or isinstance(r, bool) or not isinstance(r, int) or r < 0:
            raise Unsupported('shift by a symbolic amount')
        a, ba = _tobv(l)
        if op == 'LShift':
            return SBV(a << r, ba + r)
        return SBV(z3.LShR(a, r), max(ba - r, 0))
    (a, ba), (b, bb) = _tobv(l), _tobv(r)
    if op == 'BitAnd':
        return SBV(a & b, min(ba, bb))
    if op == 'BitOr':
        return SBV(a | b, max(ba, bb))
    if op == 'BitXor':
        return SBV(a ^ b, max(ba, bb))
    raise Unsupported('bv op ' + op)


_BVCMP = {'Eq': lambda a, b: a == b, 'NotEq': lambda a, b: a != b, 'Lt': z3.ULT, 'LtE': z3.ULE, 'Gt': z3.UGT, 'GtE': z3.UGE}


def bv_cmp(op, l, r):
    """comparison with at least one SBV operand (values are non-negative)"""
    flip = {'Lt': 'Gt', 'LtE': 'GtE', 'Gt': 'Lt', 'GtE': 'LtE'}
    if not isinstance(l, SBV):
        l, r, op = r, l, flip.get(op, op)
    if isinstance(r, int) and not isinstance(r, bool) and (r < 0 or r >= 2 ** (BVW - 1)):
        neg = r < 0
        return {'Eq': False, 'NotEq': True, 'Lt': not neg, 'LtE': not neg, 'Gt': neg, 'GtE': neg}[op]
    if isinstance(r, SInt) and _int_term_to_bv(r.z) is None:
        return getattr(l.to_int(), '__%s__' % _OPS[op])(r)
    if not isinstance(r, (int, SInt, SBool, SBV)):
        if op == 'Eq':
            return False
        if op == 'NotEq':
            return True
        raise TypeError('unorderable types')
    b, _ = _tobv(r)
    return SBool(_BVCMP[op](l.z, b))


class SBytes:
    """bytes value with symbolic elements (struct.pack('B', x) and concatenations): only what the library uses"""

    def __init__(self, items):
        self.items = list(items)       # ints or z3 Int terms

    @staticmethod
    def of(x):
        if isinstance(x, SBytes):
            return x
        if isinstance(x, (bytes, bytearray)):
            return SBytes(list(x))
        raise TypeError("can't concat %s to bytes" % type(x).__name__)

    def __len__(self):
        return len(self.items)

    def __add__(self, o):
        return SBytes(self.items + SBytes.of(o).items)

    def __radd__(self, o):
        return SBytes(SBytes.of(o).items + self.items)

    def __mul__(self, n):
        if not isinstance(n, int):
            raise Unsupported('bytes * symbolic int')
        return SBytes(self.items * n)

    __rmul__ = __mul__

    def __getitem__(self, i):
        if isinstance(i, slice):
            return SBytes(self.items[i])
        if isinstance(i, SInt):
            raise Unsupported('symbolic index into bytes')
        v = self.items[i]
        return v if isinstance(v, int) else SInt(v)

    def _eqz(self, o):
        o = SBytes.of(o)
        if len(o) != len(self):
            return z3.BoolVal(False)
        return z3.And([z3.BoolVal(a == b) if isinstance(a, int) and isinstance(b, int) else a == b for a, b in zip(self.items, o.items)] or [z3.BoolVal(True)])

    def __eq__(self, o):
        if not isinstance(o, (SBytes, bytes, bytearray)):
            return False
        return SBool(self._eqz(o))

    def __ne__(self, o):
        if not isinstance(o, (SBytes, bytes, bytearray)):
            return True
        return SBool(z3.Not(self._eqz(o)))

    __hash__ = None


def _m_struct_pack(fmt, *vals):
    if not any(isinstance(v, SYM_TYPES) for v in vals):
        import struct
        return struct.pack(fmt, *vals)
    if fmt != 'B' or len(vals) != 1:
        raise Unsupported('struct.pack(%r) with symbolic argument' % (fmt,))
    v = vals[0]
    if isinstance(v, SBV):
        if v.bits > 8 and not fork(z3.ULE(v.z, 255)):
            import struct
            raise struct.error('ubyte format requires 0 <= number <= 255')
        return SBytes([z3.BV2Int(v.z, False)])
    if isinstance(v, SInt):
        if not fork(z3.And(v.z >= 0, v.z <= 255)):
            import struct
            raise struct.error('ubyte format requires 0 <= number <= 255')
        return SBytes([v.z])
    raise Unsupported('struct.pack of %s' % type(v).__name__)


SYM_TYPES = (SStr, SInt, SBool, LazyDec, LazyBigInt, SDate, LazySel, SBV, SDecimal, SBytes)
_FUNC_MODELS[_decimal.Decimal] = SDecimal.of_text
import struct as _struct
_FUNC_MODELS[_struct.pack] = _m_struct_pack
