# client side of the pristine-interpreter replay worker (symx/worker.py)
import datetime
import json
import os
import subprocess

PRISTINE_PYTHON = '/venv/bin/python'
_WORKER = os.path.join(os.path.dirname(os.path.abspath(__file__)), 'worker.py')


class Ref:
    def __init__(self, k):
        self.k = k


class StrSub:
    def __init__(self, text):
        self.text = text


class Obj:
    pass


def enc_arg(a):
    """python value -> JSON encoding understood by the worker"""
    if isinstance(a, Ref):
        return {'$ref': a.k}
    if isinstance(a, StrSub):
        return {'$strsub': a.text}
    if isinstance(a, Obj):
        return {'$object': 1}
    if a is None or isinstance(a, (bool, int, str)):
        return a
    if isinstance(a, float):
        return {'$float': repr(a)}
    if isinstance(a, set):
        return {'$set': [enc_arg(x) for x in a]}
    if isinstance(a, bytes):
        return {'$bytes': a.hex()}
    if isinstance(a, tuple):
        return {'$tuple': [enc_arg(x) for x in a]}
    if isinstance(a, list):
        return [enc_arg(x) for x in a]
    if isinstance(a, set):
        return {'$set': [enc_arg(x) for x in a]}
    if isinstance(a, dict):
        return {'$dict': [[enc_arg(k), enc_arg(v)] for k, v in a.items()]}
    if isinstance(a, datetime.date):
        return {'$date': a.isoformat()}
    raise TypeError('cannot encode %r' % type(a))


def step(mod, func, *args, **kwargs):
    return {'mod': mod, 'func': func, 'args': [enc_arg(a) for a in args], 'kwargs': {k: enc_arg(v) for k, v in kwargs.items()}}


class Replayer:
    def __init__(self, repo='/repo'):
        self.repo = repo
        self.p = None
        self.count = 0

    def _start(self):
        env = {'PATH': os.environ.get('PATH', '/usr/bin:/bin'), 'LANG': 'C.UTF-8'}
        self.p = subprocess.Popen([PRISTINE_PYTHON, '-I', _WORKER, self.repo], stdin=subprocess.PIPE, stdout=subprocess.PIPE,
                                  stderr=subprocess.DEVNULL, env=env, text=True, bufsize=1)

    def run(self, steps, today=None):
        """returns list of per-step result dicts (see worker.py) or raises RuntimeError"""
        if self.p is None or self.p.poll() is not None:
            self._start()
        if isinstance(today, datetime.date):
            today = today.isoformat()
        req = json.dumps({'steps': steps, 'today': today})
        try:
            self.p.stdin.write(req + '\n')
            self.p.stdin.flush()
            line = self.p.stdout.readline()
        except (BrokenPipeError, OSError) as e:
            self.p = None
            raise RuntimeError('replay worker died: %s' % e)
        if not line:
            self.p = None
            raise RuntimeError('replay worker died')
        self.count += 1
        resp = json.loads(line)
        if 'error' in resp:
            raise RuntimeError('replay worker error: ' + resp['error'])
        return resp['results']

    def close(self):
        if self.p is not None:
            try:
                self.p.stdin.close()
                self.p.wait(timeout=5)
            except Exception:
                self.p.kill()
            self.p = None
