# Paired runs (DESIGN.md 2.5): align the cut points of two executions of the same code on two related inputs and add
# solver-proven injectivity lemma instances, so that error-detection queries over long checksum folds become easy.
#
# Soundness: every instance added is an implication that has first been proven valid (query `unsat`) over ranges that
# are asserted on the current path; nothing else is added.  The final verdict is still z3's on the full encoding.
import time

import z3

from . import engine as E

DEBUG = False
LEMMAS = {}     # template key -> bool (proven valid?)
STATS = {'proved': 0, 'failed': 0, 'cached': 0, 'instances': 0, 'time_s': 0.0, 'unknown': 0}


def _diff(ta, tb, out, seen=None):
    """parallel walk of two term DAGs; collects differing leaf pairs; returns False if the shapes differ"""
    if seen is None:
        seen = set()
    if ta.eq(tb):
        return True
    k = (ta.get_id(), tb.get_id())
    if k in seen:
        return True
    seen.add(k)
    if len(seen) > 20000:
        return False
    if z3.is_const(ta) and z3.is_const(tb):
        out.append((ta, tb))
        return True
    if ta.decl().eq(tb.decl()) and ta.num_args() == tb.num_args() and ta.num_args() > 0:
        for x, y in zip(ta.children(), tb.children()):
            if not _diff(x, y, out, seen):
                return False
        return True
    return False


def _vars(t, acc, seen=None):
    if seen is None:
        seen = set()
    k = t.get_id()
    if k in seen:
        return
    seen.add(k)
    if z3.is_const(t):
        if t.decl().kind() == z3.Z3_OP_UNINTERPRETED:
            acc[k] = t
        return
    for c in t.children():
        _vars(c, acc, seen)


def _prove(st, ta, tb, pairs, timeout_ms):
    """is  (OR xa != xb over pairs)  =>  ta != tb  valid under the per-variable constraints of the path?"""
    vs = {}
    _vars(ta, vs)
    _vars(tb, vs)
    # canonical key: rename variables by first occurrence
    order = list(vs.values())
    ren = [(v, z3.Int('L%d' % i)) for i, v in enumerate(order)]
    cons = [st.var_constraints[v.get_id()] for v in order if v.get_id() in st.var_constraints]
    body = z3.And([z3.Or([a != b for a, b in pairs]), ta == tb] + cons)
    key = z3.substitute(body, *ren).sexpr()
    if key in LEMMAS:
        STATS['cached'] += 1
        return LEMMAS[key]
    t0 = time.time()
    s = z3.Solver()
    s.set('timeout', timeout_ms)
    s.add(body)
    r = s.check()
    STATS['time_s'] += time.time() - t0
    ok = (r == z3.unsat)
    if r == z3.unknown:
        STATS['unknown'] += 1
    STATS['proved' if ok else 'failed'] += 1
    LEMMAS[key] = ok
    return ok


def refine(st, chars):
    """strengthen the per-variable range information used by lemma proofs: for each symbolic character ask the solver
    whether the path condition forces it to be an ASCII digit (or an upper-case letter); sound: only implied facts are kept"""
    for c in chars:
        if isinstance(c, int):
            continue
        for lo, hi in ((48, 57), (65, 90)):
            inside = z3.And(c >= lo, c <= hi)
            if st.check(z3.Not(inside)) == z3.unsat:
                k = c.get_id()
                st.var_constraints[k] = z3.And(st.var_constraints[k], inside) if k in st.var_constraints else inside
                break


def add_lemmas(st, rec_a, rec_b, timeout_ms=20000, max_expand=2):
    """rec_a / rec_b: slices of st.cutrec recorded during run A and run B (same code, related inputs, same path)"""
    defs = {}
    for r, t in st.cutrec:
        defs[r.get_id()] = t
    n = 0
    for (ra, ta), (rb, tb) in zip(rec_a, rec_b):
        if ta.eq(tb):
            st.add(ra == rb)
            n += 1
            continue
        xa, xb = ta, tb
        for _ in range(max_expand + 1):
            pairs = []
            if not _diff(xa, xb, pairs):
                break
            # dedupe
            seen = {}
            for a, b in pairs:
                seen[(a.get_id(), b.get_id())] = (a, b)
            pairs = list(seen.values())
            if not pairs:
                break
            ok = _prove(st, xa, xb, pairs, timeout_ms)
            if DEBUG:
                print('  cut', ra, rb, 'try', _, 'pairs', pairs, 'ok', ok, 'A:', str(xa)[:150].replace(chr(10), ' '))
            if ok:
                st.add(z3.Implies(z3.Or([a != b for a, b in pairs]), ra != rb))
                n += 1
                break
            # expand differing cut variables by their definitions (window of two or three steps)
            sub = []
            for a, b in pairs:
                if a.get_id() in defs and b.get_id() in defs:
                    sub.append((a, defs[a.get_id()]))
                    sub.append((b, defs[b.get_id()]))
            if not sub:
                break
            xa = z3.substitute(xa, *[(a, d) for a, d in sub])
            xb = z3.substitute(xb, *[(a, d) for a, d in sub])
    if DEBUG:
        print('add_lemmas', n, 'of', len(rec_a), len(rec_b))
    STATS['instances'] += n
    st.model = None
    return n
