# second-chance decision procedure for path conditions that mix integer character variables with bit-vector terms
# (bech32 polymod): z3's combined Int/BV solving returns `unknown` on them, while the same condition written purely over
# bit vectors is decided in milliseconds.  The translation maps every Int variable to a 32-bit vector and supports only
# numerals < 2**24, variables, ite, +, - (at most four operands) and comparisons, so no translated term can wrap as long
# as every variable is bounded by the path condition itself (characters are: 0..0x10FFFF); anything else -> Fail and the
# caller keeps its `unknown`.  `sat` answers are never trusted as such: the caller re-checks the original condition with
# the input values pinned.  `unsat` is only reported when every Int variable is known to be range-constrained.
import z3

W = 32
_CMP = {z3.Z3_OP_LE: lambda a, b: a <= b, z3.Z3_OP_GE: lambda a, b: a >= b, z3.Z3_OP_LT: lambda a, b: a < b, z3.Z3_OP_GT: lambda a, b: a > b}


_NARY = {z3.Z3_OP_BXOR: lambda a, b: a ^ b, z3.Z3_OP_BOR: lambda a, b: a | b, z3.Z3_OP_BAND: lambda a, b: a & b,
         z3.Z3_OP_BADD: lambda a, b: a + b, z3.Z3_OP_BMUL: lambda a, b: a * b, z3.Z3_OP_CONCAT: z3.Concat}


class Fail(Exception):
    pass


class Translator:
    def __init__(self):
        self.memo = {}
        self.vars = {}

    def int_term(self, e):
        k = ('i', e.get_id())
        r = self.memo.get(k)
        if r is not None:
            return r[1]
        if z3.is_int_value(e):
            v = e.as_long()
            if abs(v) >= 2 ** 24:
                raise Fail('wide constant')
            r = z3.BitVecVal(v, W)
        elif e.num_args() == 0 and e.decl().kind() == z3.Z3_OP_UNINTERPRETED:
            ent = self.vars.get(e.get_id())
            if ent is None:
                ent = self.vars[e.get_id()] = (e, z3.BitVec('bv!' + e.decl().name(), W))
            r = ent[1]
        else:
            kind = e.decl().kind()
            ch = e.children()
            if kind == z3.Z3_OP_ITE:
                r = z3.If(self.term(ch[0]), self.int_term(ch[1]), self.int_term(ch[2]))
            elif kind == z3.Z3_OP_ADD and len(ch) <= 4:
                r = self.int_term(ch[0])
                for c in ch[1:]:
                    r = r + self.int_term(c)
            elif kind == z3.Z3_OP_SUB and len(ch) == 2:
                r = self.int_term(ch[0]) - self.int_term(ch[1])
            elif kind == z3.Z3_OP_UMINUS:
                r = -self.int_term(ch[0])
            elif kind == z3.Z3_OP_MUL and len(ch) == 2 and z3.is_int_value(ch[0]) and ch[0].as_long() == -1:
                r = -self.int_term(ch[1])
            else:
                raise Fail('int term %s' % e.decl().name())
        self.memo[k] = (e, r)     # the source term is kept alive: z3 re-uses the ids of collected terms
        return r

    def term(self, e):
        """Bool- or BitVec-sorted term"""
        k = ('t', e.get_id())
        r = self.memo.get(k)
        if r is not None:
            return r[1]
        if z3.is_int(e):
            raise Fail('int term in bool/bv position')
        ch = e.children()
        kind = e.decl().kind()
        if not ch:
            r = e
        elif ch and z3.is_int(ch[0]) and kind in (z3.Z3_OP_EQ, z3.Z3_OP_DISTINCT, z3.Z3_OP_LE, z3.Z3_OP_GE, z3.Z3_OP_LT, z3.Z3_OP_GT):
            args = [self.int_term(c) for c in ch]
            if kind == z3.Z3_OP_EQ:
                r = args[0] == args[1]
            elif kind == z3.Z3_OP_DISTINCT:
                r = z3.Distinct(*args)
            else:
                r = _CMP[kind](args[0], args[1])      # signed comparisons
        elif kind == z3.Z3_OP_INT2BV:
            # the engine only converts integers it has shown to lie in 0 .. 2**23 (cut-point ranges / a forked range check);
            # narrower conversions (introduced by the simplifier) are the low bits of the same value
            t = self.int_term(ch[0])
            n = e.size()
            r = z3.ZeroExt(n - W, t) if n > W else (t if n == W else z3.Extract(n - 1, 0, t))
        elif kind in (z3.Z3_OP_INT2BV, z3.Z3_OP_BV2INT) or any(z3.is_int(c) for c in ch):
            raise Fail('int/bv conversion')
        elif kind == z3.Z3_OP_ITE:
            r = z3.If(self.term(ch[0]), self.term(ch[1]), self.term(ch[2]))
        elif kind == z3.Z3_OP_AND:
            r = z3.And([self.term(c) for c in ch])
        elif kind == z3.Z3_OP_OR:
            r = z3.Or([self.term(c) for c in ch])
        elif kind == z3.Z3_OP_NOT:
            r = z3.Not(self.term(ch[0]))
        elif kind == z3.Z3_OP_EQ or kind == z3.Z3_OP_IFF:
            r = self.term(ch[0]) == self.term(ch[1])
        elif kind == z3.Z3_OP_DISTINCT:
            r = z3.Distinct(*[self.term(c) for c in ch])
        elif kind == z3.Z3_OP_IMPLIES:
            r = z3.Implies(self.term(ch[0]), self.term(ch[1]))
        elif kind == z3.Z3_OP_XOR:
            r = z3.Xor(self.term(ch[0]), self.term(ch[1]))
        elif kind in _NARY and len(ch) > 2:
            args = [self.term(c) for c in ch]
            r = args[0]
            for a2 in args[1:]:
                r = _NARY[kind](r, a2)
        else:
            # bit-vector operators (and anything else over Bool / BitVec children): rebuilt with the same declaration
            try:
                r = e.decl()(*[self.term(c) for c in ch])
            except z3.Z3Exception:
                raise Fail('cannot rebuild %s/%d' % (e.decl().name(), len(ch)))
        self.memo[k] = (e, r)     # the source term is kept alive: z3 re-uses the ids of collected terms
        return r


def has_bv(constraints):
    """cheap test: does any constraint mention a bit-vector term? (memoised DAG walk)"""
    seen = set()
    stack = list(constraints)
    while stack:
        e = stack.pop()
        k = e.get_id()
        if k in seen:
            continue
        seen.add(k)
        if z3.is_bv(e):
            return True
        stack.extend(e.children())
    return False


class Route:
    """incremental pure bit-vector twin of one path's solver: assertions are translated once, in order"""

    def __init__(self):
        self.tr = Translator()
        self.solver = z3.SolverFor('QF_BV')
        self.n = 0            # number of path assertions already translated and asserted
        self.seen = {}        # their ids (the terms are kept alive here)
        self.broken = None    # reason why the path condition is not translatable (then every query is `unknown`)

    def sync(self, assertions):
        if self.broken:
            return
        try:
            for c in assertions:
                k = c.get_id()
                if k in self.seen:
                    continue
                self.solver.add(self.tr.term(c))
                self.seen[k] = c
                self.n += 1
        except Fail as e:
            self.broken = 'not translatable: %s' % e
        except RecursionError:
            self.broken = 'too deep'

    def solve(self, assertions, extra, bounded_ids, timeout_ms):
        self.sync(assertions)
        if self.broken:
            return 'unknown', self.broken
        try:
            ex = [self.tr.term(c) for c in extra]
        except Fail as e:
            return 'unknown', 'not translatable: %s' % e
        except RecursionError:
            return 'unknown', 'too deep'
        self.solver.set('timeout', timeout_ms)
        self.solver.push()
        try:
            self.solver.add(ex)
            r = self.solver.check()
            if r == z3.sat:
                m = self.solver.model()
                return 'sat', [(iv, m.eval(bv, model_completion=True).as_signed_long()) for iv, bv in list(self.tr.vars.values())]
            if r == z3.unsat:
                if all(k in bounded_ids for k in self.tr.vars):
                    return 'unsat', None
                return 'unknown', 'unsat over 32-bit vectors but not every integer variable is known to be bounded'
            return 'unknown', 'solver'
        finally:
            self.solver.pop()


def solve(constraints, bounded_ids, timeout_ms=10000, tr=None):
    """returns ('sat', [(int_var, value), ...]) | ('unsat', None) | ('unknown', reason); `tr`: a Translator kept by the caller
    (terms are hash-consed, so its memo stays valid along a path)"""
    tr = tr or Translator()
    try:
        out = [tr.term(c) for c in constraints]
    except Fail as e:
        return 'unknown', 'not translatable: %s' % e
    except RecursionError:
        return 'unknown', 'too deep'
    s = z3.SolverFor('QF_BV')
    s.set('timeout', timeout_ms)
    s.add(out)
    r = s.check()
    if r == z3.sat:
        m = s.model()
        asg = []
        for k, (iv, bv) in list(tr.vars.items()):
            v = m.eval(bv, model_completion=True).as_signed_long()
            asg.append((iv, v))
        return 'sat', asg
    if r == z3.unsat:
        if all(k in bounded_ids for k in tr.vars):
            return 'unsat', None
        return 'unknown', 'unsat over 32-bit vectors but not every integer variable is known to be bounded'
    return 'unknown', 'solver'
