#!/bin/bash
# tools/seedtest.sh <seed-dir-name> <Cnn> [check args...]
# runs a check against a scratch worktree of /repo's HEAD with the seeded patch applied (never touches /repo's tree).
# evidence/ and replays/ of this run go to a scratch VERIF_OUT so the committed evidence is not overwritten.
set -e
seed=$1; prop=$2; shift 2
wt=/tmp/seedwt_$seed.$$
git -C /repo worktree add -q --detach $wt HEAD
trap "git -C /repo worktree remove --force $wt" EXIT
git -C $wt apply /verif/seeded/$seed/patch.diff
cd /verif
SYMX_REPO=$wt VERIF_EVIDENCE_DIR=/tmp/seed_evidence_$seed VERIF_REPLAY_DIR=/tmp/seed_replays_$seed ./check $prop "$@" || true
