#!/bin/bash
# tools/runfinal.sh [seed] : every quick check on /repo's current tree, evidence written to /verif/evidence (the committed evidence)
seed=${1:-0}
out=/tmp/final_$seed; mkdir -p $out
cd /verif
for p in C01 C02 C03 C04 C05 C06 C07 C08 C09 C10 C11 C12 C13 C14 C15 C16 C17 C18; do
  t0=$(date +%s)
  VERIF_SEED=$seed ./check $p > $out/$p.out 2>$out/$p.err
  echo "$p exit=$? $(( $(date +%s) - t0 ))s $(grep -v '^KNOWN\|^VIOLATION\|^  ' $out/$p.out | tail -n 1 | cut -c1-260)"
done
