#!/bin/bash
# tools/seedmatrix.sh [seed ...]   runs every seeded change against the quick check of its own property (full check, all units)
# and records the verdict in /verif/seeded/<seed>/result.json; prints one line per seed
cd /verif
seeds="$@"
[ -z "$seeds" ] && seeds=$(ls seeded | sort)
for seed in $seeds; do
  prop=${seed%%-*}
  wt=/tmp/seedwt_$seed.$$
  git -C /repo worktree add -q --detach $wt HEAD 2>/dev/null || { echo "$seed: worktree failed"; continue; }
  if ! git -C $wt apply /verif/seeded/$seed/patch.diff 2>/tmp/apply_$seed.err; then
    echo "$seed: PATCH DOES NOT APPLY ($(head -1 /tmp/apply_$seed.err))"
    git -C /repo worktree remove --force $wt
    continue
  fi
  t0=$(date +%s)
  out=/tmp/seedmatrix_$seed.out
  SYMX_REPO=$wt VERIF_EVIDENCE_DIR=/tmp/seed_evidence_$seed VERIF_REPLAY_DIR=/tmp/seed_replays_$seed ./check $prop > $out 2>/dev/null
  rc=$?
  t1=$(date +%s)
  nv=$(grep -c "^VIOLATION" $out)
  first=$(grep -A1 "^VIOLATION" $out | grep -v "^VIOLATION\|^--" | head -1 | cut -c1-300)
  python3 - "$seed" "$prop" "$rc" "$nv" "$((t1-t0))" "$first" <<'PY'
import json, sys
seed, prop, rc, nv, secs, first = sys.argv[1:7]
json.dump({'seed': seed, 'check': './check %s --tier quick' % prop, 'exit': int(rc), 'violations_reported': int(nv), 'wall_s': int(secs), 'first_violation': first.strip(),
           'detected': int(rc) == 1 and int(nv) > 0}, open('/verif/seeded/%s/result.json' % seed, 'w'), indent=1)
PY
  echo "$seed: exit=$rc violations=$nv ${first:0:160} ($((t1-t0))s)"
  git -C /repo worktree remove --force $wt
done
