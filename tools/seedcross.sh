#!/bin/bash
# tools/seedcross.sh <seed> <Cnn> [check args...] : run the check of ANOTHER property against a seeded change and record the
# outcome in seeded/<seed>/cross.json (list of runs)
seed=$1; prop=$2; shift 2
wt=/tmp/seedwt_$seed.$$
git -C /repo worktree add -q --detach $wt HEAD
trap "git -C /repo worktree remove --force $wt" EXIT
git -C $wt apply /verif/seeded/$seed/patch.diff || exit 2
cd /verif
out=/tmp/seedcross_${seed}_$prop.out
t0=$(date +%s)
SYMX_REPO=$wt VERIF_EVIDENCE_DIR=/tmp/seed_evidence_$seed VERIF_REPLAY_DIR=/tmp/seed_replays_$seed ./check $prop "$@" > $out 2>/dev/null
rc=$?
t1=$(date +%s)
nv=$(grep -c "^VIOLATION" $out)
first=$(grep -A1 "^VIOLATION" $out | grep -v "^VIOLATION\|^--" | head -1 | cut -c1-300)
python3 - "$seed" "$prop" "$rc" "$nv" "$((t1-t0))" "$first" "$*" <<'PY'
import json, sys, os
seed, prop, rc, nv, secs, first, args = sys.argv[1:8]
p = '/verif/seeded/%s/cross.json' % seed
cur = json.load(open(p)) if os.path.exists(p) else []
cur = [c for c in cur if c.get('check') != ('./check %s %s' % (prop, args)).strip()]
cur.append({'seed': seed, 'check': ('./check %s %s' % (prop, args)).strip(), 'exit': int(rc), 'violations_reported': int(nv), 'wall_s': int(secs), 'first_violation': first.strip(), 'detected': int(rc) == 1 and int(nv) > 0})
json.dump(cur, open(p, 'w'), indent=1)
PY
echo "$seed vs $prop: exit=$rc violations=$nv ${first:0:200} ($((t1-t0))s)"
