#!/bin/bash
# tools/runthorough.sh [seed] [props...] : every thorough check on the current tree, output under /tmp/thorough_<seed>/
seed=${1:-0}; shift
props="$@"
[ -z "$props" ] && props="C01 C02 C15 C03 C04 C05 C06 C07 C08 C09 C10 C11 C12 C13 C14 C16 C17 C18"
out=/tmp/thorough_$seed; mkdir -p $out
cd /verif
for p in $props; do
  t0=$(date +%s)
  VERIF_SEED=$seed VERIF_EVIDENCE_DIR=$out/evidence VERIF_REPLAY_DIR=$out/replays ./check $p --tier thorough > $out/$p.out 2>$out/$p.err
  echo "$p exit=$? $(( $(date +%s) - t0 ))s $(grep -v '^KNOWN\|^VIOLATION\|^  ' $out/$p.out | tail -n 1 | cut -c1-260)"
done
