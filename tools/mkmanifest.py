#!/usr/bin/env python3
# regenerates MANIFEST.json from the table below (run by hand after adding a harness)
import json, os
HERE = os.path.dirname(os.path.dirname(os.path.abspath(__file__)))
TB = ("trusted base: the symx engine's models of Python builtins/str/re/datetime (symx/engine.py) and the z3 solver; "
      "every explored path's solver-generated witness is replayed on the untransformed code in a pristine interpreter and must show the "
      "symbolically predicted outcome (divergences are reported, never counted as passes); CPython 3.12.1 / Unicode 15.0.0 tables")
CLAIMED = {
 'C01': ('bounded symbolic execution of every module\'s real validate()/is_valid() on a fully symbolic string (all code points) + z3; counterexamples replayed',
         'For every number module, documented option set and explored input length, every path of validate(x)/is_valid(x) over a fully symbolic string x (each character 0..0x10FFFF, at most K=1 exotic event per input in quick) is enumerated with z3 deciding branch feasibility; a path ending in a non-ValidationError exception, a non-str return, or an is_valid that raises / is not a bool / disagrees with validate is a violation once its witness reproduces on the real code. Bounded (lengths, K, path/time caps per unit are reported); non-string argument shapes are explored concretely.', '5 C01'),
 'C02': ('bounded symbolic execution of validate(validate(x)) on the real code + z3 obligations (equality, no surrounding whitespace)',
         'On every accepting path of validate(x) the same path continues with validate(v): the solver must show v is accepted again, returned unchanged and has no leading/trailing Unicode whitespace, for all inputs following that path. Bounded as C01.', '5 C02'),
 'C05': ('symbolic execution of the real calc_check_digit(s) and validate() (relation scripts + paired runs with proven lemmas) + z3',
         'For the modules whose generator argument / check position can be inferred from their doctest-valid numbers (55 of ~85; the rest are listed as uncovered in the evidence): the generator applied to the payload of any symbolic valid number returns the embedded check character(s); any other character of the check alphabet at a check position makes the number invalid; completing any symbolic payload with the generated character(s) is never rejected with InvalidChecksum. Bounded lengths / caps. The generic algorithm modules are covered by C06 instead.', '5 C05'),
 'C06': ('paired symbolic runs of the real checksum/calc_check_digit/validate with cut points and solver-proven injectivity lemmas; z3',
         'For Luhn (several alphabets), Verhoeff, Damm and the five ISO 7064 modules: for all payloads of each explored length the solver shows append-validity, uniqueness of the check character, detection of every same-kind single substitution and (where promised) every adjacent transposition, and that Luhn misses exactly the first/last-symbol swap. Bounded lengths; the unbounded claim of the property is not made.', '5 C06'),
 'C03': ('symbolic execution of the real compact()/validate() on the pair (x, compact(x)) for a fully symbolic x + z3 obligation "same outcome"; transitivity argument for arbitrary pairs',
         'For every module with compact() (minus the formats the property excludes) and every path of compact(x), validate(x), validate(compact(x)) over a fully symbolic x: the solver must show that, whenever compact is idempotent on the path, both validations are rejected or both return the same value. Since every input is related to its own compact form, this covers all pairs with equal compact forms. Bounded lengths / K / caps.', '5 C03'),
 'C04': ('symbolic execution of the real validate()/format() chain on a symbolic input + z3 equalities',
         'On every accepting path of validate(x): format(x) must return, validate(format(x)) must return the same canonical number (up to the four documented normalisations) and format(validate(x)) must equal format(x), for the default and the documented format options. Bounded lengths / K / caps.', '5 C04'),
 'C07': ('joint symbolic execution of the real validate() and an independent transcription of the standard (spec/ref_validators.py) on the same symbolic input + z3 obligation "same verdict, same canonical string"',
         'For ISBN, EAN, ISSN, ISMN, ISIN, IBAN (per registered country), IMEI, ISO 11649, ISNI, LEI, GRid, CUSIP, SEDOL, FIGI, IMO, CAS RN, BIC and ISRC: every path of both implementations over a symbolic compact-presentation string (43-character alphabet 0..Z) of each explored length must agree. Bitcoin is not covered (SHA-256). Bounded lengths / caps; checksum-heavy paths use proven-free heuristics only to find witnesses, never to discharge obligations.', '5 C07'),
 'C10': ('symbolic registries (symbolic range endpoints) and symbolic queries through the real NumDB.info()/read() against a reference reading of the prefix rules run through the same engine + z3',
         'Small registry shapes with arbitrary digit endpoints, all 17 shipped registries with symbolic queries (large ones pinned to sampled entries), and generated registry lines with symbolic property values: parts concatenate to the number and split/properties equal the reference semantics; the reader understands the generated lines completely. Bounded shapes / query lengths.', '5 C10'),
 'C11': ('ground evaluation of every registry line against an independent grammar + per-entry satisfiability queries on the real lookup and consumers (IBAN structures, ISBN ranges) with z3',
         'All ~46,000 lines: the real reader\'s structure equals the independent grammar\'s (ground facts, evaluated); per entry a sat query shows a number reaching it (all entries of small registries, seed-rotated samples of large ones in quick); per sampled IBAN country a valid IBAN is synthesised and replayed; per sampled ISBN range every number in the range splits into five non-empty parts. GS1 AIs are exercised by C16.', '5 C11'),
 'C08': ('symbolic execution of the real conversion functions and target validators on a symbolic source number + z3 obligations (target-valid, inverse / embedding)',
         'For each of the ~30 listed conversions: on every accepting path of the source validate(x) for a raw symbolic x, the converted value must validate in the target format and convert back to / embed the source identity; ValidationError refusals are allowed, other exceptions are not. Bounded lengths / K / caps.', '5 C08'),
 'C09': ('joint symbolic execution of each wrapper and its constituent validators on the same symbolic input + z3/boolean obligations for the documented relation',
         'eu.vat against each of the 27 member-state validators plus XI and EL/GR (independent list), with the result-carries-prefix relation and vatin ⊇ eu.vat; vatin against every package exporting vat; us.tin / be.ssn / th.tin against the union of their sub-types (and guess_type); es.nif ⊇ dni, nie, cif; iban against generic rules ∧ national validator for BE, ES, ME, NO; five one-to-one wrappers. Country prefix concrete, the rest of the input fully symbolic. Bounded lengths / K / caps; guess_country() and history-dependent dispatch (module caches) are C13\'s business.', '5 C09'),
 'C12': ('symbolic execution of every attribute getter on accepting paths of validate() with a symbolic system date + z3 obligations',
         'On every accepting path of validate(x): each getter (get_*, info, split, *_type) returns or raises a ValidationError; birth dates are constructed through a date model that raises exactly like datetime.date, agree with get_birth_year/month and (for 11 fixed-layout formats) with the digits; gender is M/F/None; split() parts concatenate to the canonical number. Bounded lengths / K / caps.', '5 C12'),
 'C14': ('symbolic execution of the real clean() over all code points / symbolic strings x symbolic deletechars + z3; module level: symbolic look-alike at a symbolic position',
         'One symbolic character over all 1,114,112 code points decides the per-character clauses against the interpreter\'s unicodedata tables (all violating code points are enumerated); symbolic strings and deletechars decide order/count, absence of deleted characters and idempotence; per module, doctest-valid presentations and symbolic ASCII inputs with one symbolic look-alike at a symbolic position must validate like the ASCII spelling.', '5 C14'),
 'C18': ('symbolic execution of the real WSGI application (online_check/stdnum.wsgi loaded through the transform) on a symbolic number parameter, one format module at a time + z3 obligations',
         'For every number module, HTML and JSON mode: on every path of application() over a symbolic submitted number (fully symbolic strings of the corpus length, plus neighbourhoods of doctest-valid presentations) no exception escapes, start_response is called once with 200 OK, the JSON tree is serialisable and lists the module exactly when is_valid accepts, and every still-symbolic character of the HTML body is provably not one of & < > " \'. parse_qs, json.dumps and html.escape are stubs/models (listed in the evidence); modules are handled one at a time.', '5 C18'),
 'C16': ('symbolic execution of the real gs1_128.encode()/info()/validate() per application identifier with symbolic typed values (str / int / Decimal / date / datetime models) + z3 equalities',
         'For each of the ~210 registered AIs alone, each AI followed by AI 21, and sampled pairs/triples: values symbolic within the declared format; info(encode(m)) == m, validate(encode(m)) returns, decodes to the same mapping and is a fixed point, with and without separator and parentheses; foreign exceptions from encode/info are violations. Every path\'s witness mapping is replayed through the real encode. Bounded value lengths/variants; parentheses inside values excluded (documented).', '5 C16'),
 'C17': ('paired symbolic runs of the real validate() on a symbolic valid number and its single-character substitution / adjacent transposition, with cut points and solver-proven injectivity lemmas; z3',
         'For ISBN, EAN, ISSN, ISMN, IMEI, ISNI, IBAN (per country), LEI, ISO 11649, GRid and the listed Luhn/Verhoeff/ISO 7064 protected national numbers: for a symbolic valid number of each explored length and every position, the solver shows that every same-class single substitution (and, where promised, every adjacent swap of different digits) makes validate() raise. Bounded lengths / per-unit caps; de.idnr is not covered (symbolic multiset unsupported).', '5 C17'),
 'C15': ('bounded symbolic execution of every identifier module\'s validate() + z3 obligation "all returned characters < 128"',
         'On every accepting path of validate(x) the solver must show every character of the returned value is ASCII, with x fully symbolic over all code points (one non-ASCII character anywhere, any code point, in quick). Scope: all identifier modules except the 8 generic algorithm modules and the 3 formats with national letters. Bounded as C01.', '5 C15'),
}
PENDING = {
}
def main():
    props = [json.loads(l) for l in open(os.path.join(HERE, 'properties.jsonl'))]
    checks = []
    na = []
    for p in props:
        i = p['id']
        if i in CLAIMED:
            tech, text, ref = CLAIMED[i]
            checks.append({'property_id': i, 'quick_cmd': './check %s --tier quick' % i, 'thorough_cmd': './check %s --tier thorough' % i,
                           'evidence_file': 'evidence/%s.json' % i, 'replay_cmd_template': './check replay {path}', 'engine': 'symx',
                           'level_claimed': {'category': 'model_checking', 'text': text, 'design_ref': 'DESIGN.md section ' + ref},
                           'level_note': TB, 'technique': tech})
        else:
            na.append({'property_id': i, 'reason': PENDING.get(i, 'no check registered yet: the harness for this property is still being built (see DESIGN.md section 5 for the plan); nothing is claimed')})
    m = {'version': 1,
         'setup_cmd': 'bin/ensure_env',
         'hooks': {'guard': 'STDNUM_VERIF', 'enable': 'none needed: the engine instruments /repo\'s sources at import time through an import hook; no source changes in /repo',
                   'baseline_off_cmd': 'cd /repo && /venv/bin/python -m pytest -ra -q -p no:cacheprovider --timeout=900 --continue-on-collection-errors', 'source_commits': [], 'add_only': True},
         'engines': [{'name': 'symx', 'path': 'symx/', 'serves_properties': sorted(CLAIMED), 'kind_free_text': 'bounded symbolic executor for the real stdnum sources (AST-instrumented at import, z3 decides every branch and obligation), with per-path replay on the pristine interpreter'}],
         'checks': checks, 'not_applicable': na,
         'notes': 'All checks: ./check <Cnn> --tier quick|thorough. Exit 0 = held on everything explored (KNOWN-FINDING lines for listed findings), 1 = VIOLATION (replayed on the real code), 2 = harness error. Evidence is rewritten on every run.'}
    json.dump(m, open(os.path.join(HERE, 'MANIFEST.json'), 'w'), indent=1)
    print('claimed', sorted(CLAIMED), 'not applicable', [x['property_id'] for x in na])
main()
