#!/bin/bash
# tools/seedquick.sh [--tier t] [seed ...] : every seeded change against the check of its own property, restricted to the
# modules its patch touches (stdnum/xx/yy.py -> --module stdnum.xx.yy); patches that touch shared code (util, numdb, data
# files, the WSGI script) run the whole check.  Writes /verif/seeded/<seed>/result_<tier>_modules.json
cd /verif
tier=quick
if [ "$1" = "--tier" ]; then tier=$2; shift 2; fi
seeds="$@"
[ -z "$seeds" ] && seeds=$(ls seeded | sort)
for seed in $seeds; do
  prop=${seed%%-*}
  wt=/tmp/seedwt_$seed.$$
  git -C /repo worktree add -q --detach $wt HEAD 2>/dev/null || { echo "$seed: worktree failed"; continue; }
  if ! git -C $wt apply /verif/seeded/$seed/patch.diff 2>/tmp/apply_$seed.err; then
    echo "$seed: PATCH DOES NOT APPLY ($(head -1 /tmp/apply_$seed.err))"
    git -C /repo worktree remove --force $wt
    continue
  fi
  mods=""
  whole=0
  for f in $(grep '^+++ b/' /verif/seeded/$seed/patch.diff | sed 's#^+++ b/##'); do
    case $f in
      stdnum/util.py|stdnum/numdb.py|stdnum/exceptions.py|stdnum/__init__.py|*.dat|online_check/*|stdnum/*/__init__.py) whole=1 ;;
      stdnum/*.py) m=$(echo ${f%.py} | tr / .); mods="$mods --module $m" ;;
      *) ;;
    esac
  done
  [ $whole = 1 ] && mods=""
  t0=$(date +%s)
  out=/tmp/seedquick_$seed.out
  SYMX_REPO=$wt VERIF_EVIDENCE_DIR=/tmp/seed_evidence_$seed VERIF_REPLAY_DIR=/tmp/seed_replays_$seed ./check $prop --tier $tier $mods > $out 2>/dev/null
  rc=$?
  t1=$(date +%s)
  nv=$(grep -c "^VIOLATION" $out)
  first=$(grep -A1 "^VIOLATION" $out | grep -v "^VIOLATION\|^--" | head -1 | cut -c1-300)
  python3 - "$seed" "$prop" "$rc" "$nv" "$((t1-t0))" "$first" "$tier" "$mods" <<'PY'
import json, sys
seed, prop, rc, nv, secs, first, tier, mods = sys.argv[1:9]
json.dump({'seed': seed, 'check': './check %s --tier %s %s' % (prop, tier, mods.strip()), 'exit': int(rc), 'violations_reported': int(nv), 'wall_s': int(secs), 'first_violation': first.strip(),
           'detected': int(rc) == 1 and int(nv) > 0}, open('/verif/seeded/%s/result_%s_modules.json' % (seed, tier), 'w'), indent=1)
PY
  echo "$seed: exit=$rc violations=$nv [$mods] ${first:0:150} ($((t1-t0))s)"
  git -C /repo worktree remove --force $wt
done
