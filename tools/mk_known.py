#!/usr/bin/env python3
# prints a known_findings.jsonl candidate line for each replay file given (to be reviewed and pasted by hand; never run by a check)
import json, sys
for p in sys.argv[1:]:
    v = json.load(open(p))
    out = {k: v.get(k) or '' for k in ('property', 'module', 'func', 'options', 'kind', 'exc_type', 'frame')}
    out['example'] = v.get('witness')
    out['note'] = (v.get('detail') or '')[:200]
    print(json.dumps(out, ensure_ascii=True))
