#!/bin/bash
# tools/reconfirm.sh : re-run every seeded change's demonstration against /repo's HEAD with and without its patch
# (the fix: commits made after a seed was written can mask it); writes seeded/<id>/reconfirm.json
cd /verif
for seed in $(ls seeded | sort); do
  wt=/tmp/reconf_$seed.$$
  git -C /repo worktree add -q --detach $wt HEAD 2>/dev/null
  demo=$(ls seeded/$seed/demo* | head -1)
  (cd $wt; PYTHONPATH=$wt timeout 600 /venv/bin/python /verif/$demo >/dev/null 2>&1); without=$?
  applies=true
  git -C $wt apply /verif/seeded/$seed/patch.diff 2>/dev/null || applies=false
  withp=-1
  if $applies; then (cd $wt; PYTHONPATH=$wt timeout 600 /venv/bin/python /verif/$demo >/dev/null 2>&1); withp=$?; fi
  head=$(git -C /repo log --format=%h -1)
  echo "{\"repo_head\": \"$head\", \"patch_applies\": $applies, \"demo_without_patch_exit\": $without, \"demo_with_patch_exit\": $withp, \"still_manifests\": $([ $withp != 0 ] && [ $withp != -1 ] && [ $without = 0 ] && echo true || echo false)}" > seeded/$seed/reconfirm.json
  echo "$seed applies=$applies without=$without with=$withp"
  git -C /repo worktree remove --force $wt
done
