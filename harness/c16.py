# C16: GS1-128 decoding and encoding are mutually consistent (DESIGN.md section 5, C16)
# Per registered application identifier (concrete), the value is symbolic within its declared format:
#  (b) info(encode({ai: value}, sep, parentheses), sep) == {ai: value}
#  (a) for the element string s = encode(...):  v = validate(s, sep) returns, info(v, sep) == info(s, sep), validate(v, sep) == v
# for sep in {'', FNC1 stand-in} and parentheses on/off; pairs of identifiers in the thorough tier.
import datetime
import decimal
import importlib
import json
import os
import sys
import time

import z3

from symx import engine as E
from symx.replay import step
from . import common
from .symrun import UnitResult
from .relfam import veq, _dec

# the GS1 character set 82 minus '(' and ')': the library treats parentheses as presentation characters around identifiers
# (compact() removes them), so a value containing one cannot be told from the parenthesised presentation; see DESIGN.md C16
GS1_CHARS = '!"%&\'*+,-./0123456789:;<=>?ABCDEFGHIJKLMNOPQRSTUVWXYZ_abcdefghijklmnopqrstuvwxyz'

ASSUMPTIONS = [
    'application identifiers are taken one at a time from the shipped gs1_ai.dat (pairs in the thorough tier); values are symbolic within the declared format: N -> ASCII digits, X -> the 82-character GS1 set, lengths: fixed, or {1, 2, max} (quick) for variable formats',
    'typed values: int -> symbolic integer of the declared width, decimal -> symbolic digits with every number of implied places that fits, date -> symbolic valid date 1969-01-01..2068-12-31 (range of %y); date-time formats (N10, N6[+N4], N8[+N..4]) with symbolic date and H/M/S',
    'models of decimal.Decimal / str(Decimal) / strptime / strftime (symx/engine.py) are checked differentially against CPython (selftest/decimal_model.py) and per path by witness replay',
    'separator in {"", "\\x1d"}; parentheses off/on',
    'X values range over the GS1 character set 82 WITHOUT the two parenthesis characters (compact() strips parentheses as presentation; a value containing one does not round-trip: recorded in DESIGN.md, not re-reported per identifier)',
    'identifiers 01, 02 (GTIN) and 8007 (IBAN) carry an extra validator: a rejection of a format-conforming value by encode() is not a violation there',
]


def parse_format(fmt):
    """-> list of (kind N/X/Y/Z, min, max) components"""
    import re
    comps = []
    for part in fmt.replace('[', '').replace(']', '').split('+'):
        m = re.match(r'^([NXY])(\.\.)?([0-9]+)?(\.\.)?([0-9]+)?$', part)
        if not m:
            return None
        kind = m.group(1)
        if m.group(2):       # N..8
            comps.append((kind, 1, int(m.group(3))))
        elif m.group(4):     # N6..12
            comps.append((kind, int(m.group(3)), int(m.group(5))))
        else:
            comps.append((kind, int(m.group(3)), int(m.group(3))))
    return comps


def sym_value(ai, props, variant):
    """build a symbolic value for the AI; returns (value, python-concretiser) or raises Skip"""
    fmt, typ = props['format'], props.get('type', 'str')
    comps = parse_format(fmt)
    if comps is None:
        # a format this harness cannot read either (N6+[-], Z..90): any non-empty string must at least not crash encode()
        s, cs = E.symstr_alpha(3, '0123456789', 'u')
        return E.SStr(cs)
    if typ == 'str':
        chars = []
        for k, (kind, lo, hi) in enumerate(comps):
            optional = '[' in fmt and k == len(comps) - 1
            n = {0: lo, 1: min(hi, lo + 1), 2: hi}[variant % 3]
            if optional and variant % 2 == 0:
                n = 0
            alpha = '0123456789' if kind == 'N' else GS1_CHARS
            s, cs = E.symstr_alpha(n, alpha, 'v%d_' % k)
            chars.extend(cs)
        if not chars:
            raise E.Assume('empty value')
        return E.SStr(chars)
    if typ == 'int':
        kind, lo, hi = comps[0]
        n = {0: lo, 1: min(hi, lo + 1), 2: hi}[variant % 3]
        return E.symint('iv%d' % len(E.CUR.inputs), 0, 10 ** n - 1)
    if typ == 'decimal':
        if fmt.startswith('N3+'):
            cur, cc = E.symstr_alpha(3, '0123456789', 'cur')
            kind, lo, hi = comps[1]
            total = {0: 1, 1: min(hi, 3), 2: hi}[variant % 3]
            places = variant % (min(total, 9) + 1)
            d, dc = E.symstr_alpha(total, '0123456789', 'dv')
            if total - places > 1:
                E.assume(dc[0] != 48)
            ip, fp = dc[:total - places], dc[total - places:]
            return (cur, E.SDecimal(ip, fp))
        kind, lo, hi = comps[0]
        total = hi if lo == hi else {0: 1, 1: min(hi, 3), 2: hi}[variant % 3]
        places = variant % (min(total, 9) + 1)
        d, dc = E.symstr_alpha(total, '0123456789', 'dv')
        if lo != hi and total - places > 1:
            E.assume(dc[0] != 48)       # a leading zero is not part of a Decimal value
        return E.SDecimal(dc[:total - places], dc[total - places:])
    if typ == 'date':
        y, m, d = z3.Int('dy'), z3.Int('dm'), z3.Int('dd')
        E.CUR.add(z3.And(y >= 1969, y <= 2068, m >= 1, m <= 12, d >= 1, d <= E._dim(y, m)))
        E.CUR.inputs.extend([y, m, d])
        if fmt == 'N6':
            return E.SDate(y, m, d)
        if fmt in ('N6[+N6]', 'N6..12'):
            if variant % 2 == 0:
                return E.SDate(y, m, d)
            y2, m2, d2 = z3.Int('ey'), z3.Int('em'), z3.Int('ed')
            E.CUR.add(z3.And(y2 >= 1969, y2 <= 2068, m2 >= 1, m2 <= 12, d2 >= 1, d2 <= E._dim(y2, m2)))
            return (E.SDate(y, m, d), E.SDate(y2, m2, d2))
        H, M, S = z3.Int('dH'), z3.Int('dM'), z3.Int('dS')
        E.CUR.add(z3.And(H >= 0, H <= 23, M >= 0, M <= 59, S >= 0, S <= 59))
        if fmt == 'N10' or 'N4' in fmt or 'N..4' in fmt:
            if fmt.startswith('N6') or fmt == 'N10':
                E.CUR.add(S == 0)
            return E.SDateTime(y, m, d, H, M, S)
        return E.SDate(y, m, d)      # any other date format: a plain date must still be encodable
    raise E.Unsupported('type %s format %s' % (typ, fmt))


def unit_fn(unit):
    E.install(common.REPO)
    E.CONFIG['K'] = 6
    E.CONFIG['query_timeout_ms'] = unit.get('query_timeout_ms', 6000)
    gs1 = importlib.import_module('stdnum.gs1_128')
    VE = sys.modules['stdnum.exceptions'].ValidationError
    ur = UnitResult(unit, max_samples=2)
    ais = unit['ais']          # list of (ai, props)
    t_end = time.time() + unit['timeout']
    for sep in ('', '\x1d'):
        for par in (False, True):
            for variant in unit['variants']:
                if time.time() > t_end:
                    ur.res['limit'] = 1
                    break

                def body():
                    data = {}
                    for k, (ai, props) in enumerate(ais):
                        data[ai] = sym_value(ai, props, variant + k)
                    rec = {'data': data}
                    try:
                        s = gs1.encode(data, sep, par)
                    except VE as e:
                        rec['encode'] = ('verr', type(e).__name__)
                        return rec
                    rec['encode'] = ('ret', s)
                    try:
                        rec['info'] = ('ret', gs1.info(s, sep))
                    except VE as e:
                        rec['info'] = ('verr', type(e).__name__)
                    try:
                        v = gs1.validate(s, sep)
                        rec['validate'] = ('ret', v)
                        try:
                            rec['info2'] = ('ret', gs1.info(v, sep))
                        except VE as e:
                            rec['info2'] = ('verr', type(e).__name__)
                        try:
                            rec['validate2'] = ('ret', gs1.validate(v, sep))
                        except VE as e:
                            rec['validate2'] = ('verr', type(e).__name__)
                    except VE as e:
                        rec['validate'] = ('verr', type(e).__name__)
                    return rec
                for st, out in E.explore(body, max_paths=unit['max_paths'], timeout=max(1, min(unit['timeout'] / 4, t_end - time.time()))):
                    if st is None:
                        ur.limit(out)
                        break
                    ur.path(st, out)
                    if out[0] == 'exc':
                        # a foreign exception from encode() with format-conforming values (encode is not wrapped like validate)
                        ur.res['obligations'] += 1
                        key = '+'.join(a for a, p in ais)
                        fm = '+'.join(sorted(set(p.get('format', '?') for a, p in ais)))
                        ur.violation({'module': 'stdnum.gs1_128', 'func': 'encode', 'options': '', 'kind': 'encode:raises-foreign-exception', 'exc_type': type(out[1]).__name__,
                                      'frame': _where(out[1]), 'witness': key, 'detail': 'encode({%s: <value of format %s>}) raises %s: %s' % (key, fm, type(out[1]).__name__, str(out[1])[:80]),
                                      'steps': [{'mod': 'gs1_probe', 'file': os.path.join(common.VERIF, 'harness', 'gs1_probe.py'), 'func': 'roundtrip', 'args': [[[ais[0][0], '1']], sep, par], 'kwargs': {}}]})
                        continue
                    if out[0] != 'ret':
                        continue
                    rec = out[1]
                    model = st.witness_model()
                    if model is None:
                        ur.outcome('no-witness')
                        continue
                    data_c = E.model_val(model, rec['data'])
                    # engine validation: the real encode() on the witness mapping must produce the symbolically predicted string
                    pr = ur.replay([{'mod': 'gs1_probe', 'file': os.path.join(common.VERIF, 'harness', 'gs1_probe.py'), 'func': 'roundtrip',
                                     'args': [[[k, _enc_val(v)] for k, v in data_c.items()], sep, par], 'kwargs': {}}])
                    if pr is not None and pr[0]['kind'] == 'ret':
                        got = _dec(pr[0])
                        want = E.model_val(model, rec['encode'][1]) if rec['encode'][0] == 'ret' else None
                        if (want is None) != ('encoded' not in got) or (want is not None and got.get('encoded') != want):
                            ur.divergence({'input': json.loads(json.dumps(data_c, default=str)), 'symbolic': want, 'real': got})
                            continue
                    # obligations
                    obs = []
                    if rec['encode'][0] != 'ret':
                        if not any(a in ('01', '02', '8007') for a, p in ais):      # these values must also satisfy ean / iban
                            obs.append(('encode:rejects-a-value-that-fits-the-declared-format', False))
                    else:
                        if rec.get('info', ('x',))[0] != 'ret':
                            obs.append(('info:cannot-decode-what-encode-produced', False))
                        else:
                            obs.append(('info(encode(mapping))-differs-from-mapping', veq(rec['info'][1], rec['data'])))
                        if rec.get('validate', ('x',))[0] != 'ret':
                            obs.append(('validate:rejects-an-encoded-element-string', False))
                        else:
                            if rec.get('info2', ('x',))[0] == 'ret' and rec.get('info', ('x',))[0] == 'ret':
                                obs.append(('info(validate(s))-differs-from-info(s)', veq(rec['info2'][1], rec['info'][1])))
                            elif rec.get('info2', ('x',))[0] != 'ret':
                                obs.append(('info:cannot-decode-the-validated-form', False))
                            if rec.get('validate2', ('x',))[0] == 'ret':
                                obs.append(('validate:not-a-fixed-point', veq(rec['validate2'][1], rec['validate'][1])))
                            else:
                                obs.append(('validate:rejects-its-own-output', False))
                    ur.sample({'mapping': json.loads(json.dumps(data_c, default=str)), 'separator': sep, 'parentheses': par,
                               'encoded': E.model_val(model, rec['encode'][1]) if rec['encode'][0] == 'ret' else rec['encode'][1]})
                    for name, phi in obs:
                        if phi is True:
                            ur.trivial_obligation()
                            continue
                        if phi is False:
                            ur.res['obligations'] += 1
                            res, m2 = 'sat', model
                        else:
                            res, m2 = ur.obligation(st, phi)
                        if res != 'sat':
                            continue
                        _confirm(ur, name, E.model_val(m2, rec['data']), sep, par, ais)
    return ur.finish()


def _where(e):
    import traceback
    for f in reversed(traceback.extract_tb(e.__traceback__)):
        if f.filename.startswith(common.REPO):
            return '%s:%s' % (os.path.relpath(f.filename, common.REPO), f.name)
    return '?'


def _enc_val(v):
    from symx.replay import enc_arg
    if isinstance(v, decimal.Decimal):
        return {'@decimal': str(v)}
    if isinstance(v, datetime.datetime):
        return {'@datetime': v.isoformat()}
    if isinstance(v, tuple):
        return {'@tuple': [_enc_val(x) for x in v]}
    if isinstance(v, datetime.date):
        return {'@date': v.isoformat()}
    return enc_arg(v)


def _confirm(ur, name, data_c, sep, par, ais):
    steps = [{'mod': 'gs1_probe', 'file': os.path.join(common.VERIF, 'harness', 'gs1_probe.py'), 'func': 'roundtrip',
              'args': [[[k, _enc_val(v)] for k, v in data_c.items()], sep, par], 'kwargs': {}}]
    real = ur.replay(steps)
    if real is None:
        return
    r = real[0]
    if r['kind'] != 'ret':
        verdict = {'problems': ['probe raised %s: %s' % (r.get('type'), r.get('msg'))]}
    else:
        verdict = _dec(r)
    if verdict.get('problems'):
        key = '+'.join(a for a, p in ais)
        ur.violation({'module': 'stdnum.gs1_128', 'func': 'encode/info/validate', 'options': json.dumps({'separator': sep, 'parentheses': par}, sort_keys=True),
                      'kind': name, 'witness': json.loads(json.dumps(data_c, default=str)), 'frame': 'types:' + '+'.join(sorted(set(p.get('type', 'str') for a, p in ais))), 'steps': steps,
                      'detail': '; '.join(verdict['problems'])[:300]})
    else:
        ur.divergence({'input': json.loads(json.dumps(data_c, default=str)), 'symbolic': name, 'real': verdict})


def main(args):
    from spec import numdb_ref
    tier = args.tier
    tree = numdb_ref.parse_file(open(os.path.join(common.REPO, 'stdnum', 'gs1_ai.dat'), encoding='utf-8').read())
    entries = []
    for e in tree:
        lo, hi = e[1], e[2]
        for n in range(int(lo), int(hi) + 1):
            entries.append((str(n).zfill(len(lo)), e[3]))
    units = []
    for ai, props in entries:
        u = {'module': 'stdnum.gs1_128', 'ais': [(ai, props)], 'L': 0, 'variants': [0, 1, 2] if tier == 'quick' else list(range(12)),
             'max_paths': 200 if tier == 'quick' else 4000, 'timeout': 40 if tier == 'quick' else 600, 'options': {'ai': ai, 'format': props.get('format'), 'type': props.get('type')}}
        units.append(u)
    # every identifier followed by an early (21) and, for variable-length ones, a late variable-length identifier: encode()
    # sorts identifiers, so only a later identifier makes the first one the padded / separated value
    ok = [e for e in entries if parse_format(e[1].get('format', '')) is not None]
    follower = [e for e in entries if e[0] == '21'][0]
    late = max((e for e in ok if e[1].get('fnc1') and e[1].get('type', 'str') == 'str'), key=lambda e: e[0])
    fcap = dict(max_paths=150, timeout=30) if tier == 'quick' else dict(max_paths=3000, timeout=300)
    for e in ok:
        if e[0] != '21':
            units.append(dict({'module': 'stdnum.gs1_128', 'ais': [e, follower], 'L': 0, 'variants': [2, 0], 'options': {'ai': e[0] + '+21'}}, **fcap))
        if e[1].get('fnc1') and e[0] != late[0]:
            units.append(dict({'module': 'stdnum.gs1_128', 'ais': [e, late], 'L': 0, 'variants': [2, 0], 'options': {'ai': e[0] + '+' + late[0]}}, **fcap))
    if tier != 'quick':
        import random
        rnd = random.Random(common.seed())
        for _ in range(150):
            a, b = rnd.sample(entries, 2)
            units.append({'module': 'stdnum.gs1_128', 'ais': [a, b], 'L': 0, 'variants': [0, 1, 2, 5], 'max_paths': 2000, 'timeout': 300,
                          'options': {'ai': a[0] + '+' + b[0]}})
    else:
        import random
        rnd = random.Random(common.seed())
        varl = [e for e in ok if e[1].get('fnc1')]
        for _ in range(16):
            tri = sorted(rnd.sample(varl, 3), key=lambda e: e[0])
            units.append({'module': 'stdnum.gs1_128', 'ais': tri, 'L': 0, 'variants': [2], 'max_paths': 150, 'timeout': 30, 'options': {'ai': '+'.join(e[0] for e in tri)}})
        entries_ok = ok
        fixed = [e for e in ok if not e[1].get('fnc1')]
        var = [e for e in ok if e[1].get('fnc1')]
        for _ in range(24):
            a, b = (rnd.choice(var), rnd.choice(var)) if rnd.random() < 0.5 else (rnd.choice(fixed), rnd.choice(var))
            if a[0] == b[0]:
                continue
            units.append({'module': 'stdnum.gs1_128', 'ais': [a, b], 'L': 0, 'variants': [0, 2], 'max_paths': 200, 'timeout': 40, 'options': {'ai': a[0] + '+' + b[0]}})
    if getattr(args, 'units_only', False):
        return units
    if tier != 'quick':
        # thorough = the quick tier's units first (larger caps), then everything else while the budget lasts
        import copy
        qa = copy.copy(args)
        qa.tier, qa.units_only = 'quick', True
        units = common.plan_thorough(units, main(qa))
    rep = common.Report('C16', tier)
    rep.assumptions = ASSUMPTIONS
    rep.bounds = {'application_identifiers': len(entries), 'pairs': len([u for u in units if len(u['ais']) > 1])}
    deadline = time.time() + (common.QUICK_S if tier == 'quick' else common.THOROUGH_S)

    def progress(done, total, res):
        if args.verbose:
            u = res['unit']
            print('[%d/%d] %s %s %s unknown=%s viol=%d' % (done, total, u['options'], res.get('outcomes', res.get('error', res.get('skipped'))), res.get('wall_s'), res.get('unknown'), len(res.get('violations', []))), file=sys.stderr)
    for res in common.run_units(unit_fn, common.shuffle_units(units), (lambda u: u.get('timeout', 100) * 2 + 120), progress, deadline):
        rep.add_unit(res)
    return rep.finish()
