# C13: results are independent of call history, ordering, aliasing and threads (DESIGN.md section 5, C13)
# The weakest claim of the set (said so in DESIGN.md): three bounded, solver-based sub-checks on the real code.
#  history : one inductive step from an ARBITRARY cache state.  The three country-module caches (eu.vat, vatin, iban) and the
#            registry cache (numdb) are replaced by a proxy whose key presence is a fresh symbolic boolean per key and whose
#            present values are what a fresh load produces; one call with a symbolic argument must return what the same
#            call returns from the empty cache.  A counterexample is reported only after a concrete history (found by
#            search) reproduces it in fresh pristine interpreters.
#  aliasing: on every path of registry lookups (symbolic query) the returned object graph shares no mutable object with
#            the cached registry (object identity is a function of the control path).
#  threads : the ordered accesses of one real call to the shared dictionaries are recorded (reads, publication of an
#            object, mutations of an already published object); for 2..3 threads the interleavings are symbolic order
#            variables and z3 decides whether some thread can observe a published object before its last mutation.
import importlib
import json
import os
import sys
import time

import z3

from symx import engine as E
from symx.replay import Replayer, step
from . import common
from .symrun import UnitResult

PROBE = os.path.join(common.VERIF, 'harness', 'history_probe.py')

ASSUMPTIONS = [
    'history: cache states are arbitrary subsets of the key universe (all two-letter package names + gb/el/xi aliases; all registry names) with present values equal to a fresh load; counterexamples must be reproduced by a concrete call history in fresh interpreters (search over single- and two-call histories of the public API), else they are counted as unconfirmed, never reported',
    'aliasing: identity of mutable containers only (dict / list / set); registry lookups through NumDB.info and the consumers listed in the evidence',
    'threads: single dictionary operations are atomic under the GIL; __import__ is atomic and idempotent (import lock); computation between shared accesses is thread-local; T <= 3 threads, one call each; free-threaded builds are outside the claim',
    'call sequences longer than one step are covered only through the inductive argument (the invariant "present => equal to a fresh load" is itself checked after the call)',
]


class CacheProxy(dict):
    """dict whose key presence is symbolic (one fresh Bool per key of the universe); values = fresh loads"""

    def __init__(self, name, universe, loader):
        dict.__init__(self)
        self.name, self.universe, self.loader = name, list(universe), loader
        self.present = {}
        self.stored = {}

    def bool_for(self, k):
        if k not in self.present:
            self.present[k] = z3.Bool('present_%s_%s' % (self.name, k))
        return self.present[k]

    def __sx_contains__(self, item):
        item = E.force(item)
        if isinstance(item, str):
            if item in self.stored:
                return True
            if item not in self.universe:
                return False
            return E.SBool(self.bool_for(item))
        if isinstance(item, E.SStr):
            alts = []
            for k in self.universe:
                if len(k) == len(item):
                    alts.append(z3.And(item._eqz(k), z3.BoolVal(True) if k in self.stored else self.bool_for(k)))
            return E.SBool(z3.Or(alts)) if alts else False
        return False

    def __contains__(self, item):
        r = self.__sx_contains__(item)
        return E.RT.truth(r)

    def __getitem__(self, k):
        if isinstance(k, E.SStr):
            # decide which key of the universe it is (one fork per key), else it is absent
            for cand in list(self.stored) + self.universe:
                if len(cand) == len(k) and E.fork(k._eqz(cand)):
                    k = cand
                    break
            else:
                raise KeyError('symbolic key outside the universe')
        if k in self.stored:
            return self.stored[k]
        if k in self.universe and E.RT.truth(E.SBool(self.bool_for(k))):
            return self.loader(k)
        raise KeyError(k)

    def __setitem__(self, k, v):
        if isinstance(k, E.SStr):
            k = E.concretize(k)
        self.stored[k] = v

    def get(self, k, default=None):
        try:
            return self[k]
        except KeyError:
            return default


def universe_cc():
    root = os.path.join(common.REPO, 'stdnum')
    ks = sorted(d for d in os.listdir(root) if os.path.isdir(os.path.join(root, d)) and os.path.exists(os.path.join(root, d, '__init__.py')))
    ks = [k.rstrip('_') for k in ks]
    return sorted(set(ks + ['gb', 'el', 'xi', 'gr', 'eu', 'im']))


def unit_history(unit):
    target = unit['target']          # module name holding _get_cc_module and _country_modules
    kind = unit['alias']             # 'vat' or 'iban'
    E.install(common.REPO)
    E.CONFIG['K'] = 2
    mod = importlib.import_module(target)
    util = importlib.import_module('stdnum.util')
    ur = UnitResult(unit, max_samples=3)
    uni = universe_cc()
    loader = lambda k: util.get_cc_module(k, kind)

    def body():
        cc, chars = E.symstr_alpha(2, 'abcdefghijklmnopqrstuvwxyzABCDEFGHIJKLMNOPQRSTUVWXYZ', 'cc')
        proxy = CacheProxy(target, uni, loader)
        saved = mod._country_modules
        try:
            mod._country_modules = proxy
            try:
                r1 = ('ret', mod._get_cc_module(cc))
            except Exception as e:
                r1 = ('exc', type(e).__name__)
            mod._country_modules = {}
            try:
                r2 = ('ret', mod._get_cc_module(cc))
            except Exception as e:
                r2 = ('exc', type(e).__name__)
        finally:
            mod._country_modules = saved
        return cc, proxy, r1, r2
    for st, out in E.explore(body, max_paths=4000, timeout=unit['timeout']):
        if st is None:
            ur.limit(out)
            break
        ur.path(st, out)
        if out[0] != 'ret':
            continue
        cc, proxy, r1, r2 = out[1]
        same = (r1[0] == r2[0]) and (r1[1] is r2[1] if r1[0] == 'ret' else r1[1] == r2[1])
        # the invariant is preserved: everything stored is what a fresh load gives
        inv = all(v is loader(k) for k, v in proxy.stored.items())
        ur.res['obligations'] += 2
        if inv:
            ur.res['discharged'] += 1
        if same:
            ur.res['discharged'] += 1
            if len(ur.res['samples']) < 3:
                m = st.witness_model()
                if m is not None:
                    ur.sample({'cache': target, 'argument': E.model_str(m, cc), 'assumed_present': sorted(k for k, b in proxy.present.items() if z3.is_true(m.eval(b, model_completion=True))),
                               'result': getattr(r1[1], '__name__', r1[1])})
            continue
        # enumerate the counterexample arguments on this path (blocking clauses) until one is reproduced by a real history
        tried = set()
        nv = len(ur.res['violations'])
        for _ in range(60):
            if st.check() != z3.sat:
                break
            m = st.last_model()
            ccs = E.model_str(m, cc)
            present = sorted(k for k, b in proxy.present.items() if z3.is_true(m.eval(b, model_completion=True)))
            if ccs.lower() not in tried:
                tried.add(ccs.lower())
                _confirm_history(ur, target, ccs, present, kind)
                if len(ur.res['violations']) > nv:
                    break
            st.add(z3.Not(cc._eqz(ccs)))
        if not inv:
            ur.res['harness_errors'].append('%s: cache invariant broken after a call with %r: %r' % (target, ccs, sorted(proxy.stored)))
    return ur.finish()


def _fresh_call(calls):
    """run a list of (module, function, args) in a FRESH pristine interpreter; returns the worker results"""
    rp = Replayer(common.REPO)
    try:
        return rp.run([step(m, f, *a) for m, f, a in calls])
    finally:
        rp.close()


def _confirm_history(ur, target, ccs, present, kind):
    """find a concrete history that makes the public API answer differently than in a fresh interpreter"""
    sample = {'stdnum.eu.vat': '%s0000000000', 'stdnum.vatin': '%s0000000000', 'stdnum.iban': '%s00000000000000'}[target]
    tcall = (target, 'is_valid', [sample % ccs.upper()])
    probes = [(target, 'is_valid', [sample % ccs.upper()]), (target, 'compact', [sample % ccs.upper()])]
    prefixes = sorted(set([k.upper() for k in present] + ['XI', 'EL', 'GB', 'GR']))
    ur.res['traces_validated_against_impl'] += 1
    for probe in probes:
        fresh = _fresh_call([probe])
        for p in prefixes:
            hist = [(target, 'is_valid', [sample % p]), probe]
            got = _fresh_call(hist)
            if (got[-1].get('kind'), got[-1].get('type'), got[-1].get('value')) != (fresh[0].get('kind'), fresh[0].get('type'), fresh[0].get('value')):
                ur.violation({'module': target, 'func': probe[1], 'options': '', 'kind': 'result-depends-on-call-history', 'witness': [list(h) for h in hist],
                              'frame': '%s after %s' % (ccs.lower(), p.lower()),
                              'detail': '%s.%s(%r) gives %r in a fresh interpreter but %r after %s.is_valid(%r)' % (
                                  target, probe[1], probe[2][0], fresh[0].get('value', fresh[0].get('type')), got[-1].get('value', got[-1].get('type')), target, hist[0][2][0]),
                              'steps': [step(m, f, *a) for m, f, a in hist]})
                return
    ur.res['unconfirmed_counterexamples'] = ur.res.get('unconfirmed_counterexamples', 0) + 1


def _mutable_ids(obj, acc, depth=0):
    if isinstance(obj, (list, dict, set)):
        if id(obj) in acc:
            return
        acc[id(obj)] = obj
    if isinstance(obj, dict):
        for v in obj.values():
            _mutable_ids(v, acc, depth + 1)
    elif isinstance(obj, (list, tuple, set)):
        for v in obj:
            _mutable_ids(v, acc, depth + 1)


def unit_alias(unit):
    E.install(common.REPO)
    E.CONFIG['K'] = 2
    ur = UnitResult(unit, max_samples=2)
    modname, func, L, alpha = unit['module'], unit['func'], unit['L'], unit['alphabet']
    mod = importlib.import_module(modname)
    numdb = importlib.import_module('stdnum.numdb')
    VE = sys.modules['stdnum.exceptions'].ValidationError

    def body():
        x, chars = E.symstr_alpha(L, alpha, 'q')
        pre = unit.get('prefix') or ''
        x = E.SStr([ord(c) for c in pre] + chars[len(pre):]) if pre else x
        try:
            r = getattr(mod, func)(x)
        except VE:
            raise E.Assume('rejected')
        return x, r
    for st, out in E.explore(body, max_paths=unit['max_paths'], timeout=unit['timeout']):
        if st is None:
            ur.limit(out)
            break
        ur.path(st, out)
        if out[0] != 'ret':
            continue
        x, r = out[1]
        cache_ids = {}
        for db in numdb._open_databases.values():
            _mutable_ids(db.prefixes, cache_ids)
        got = {}
        _mutable_ids(r, got)
        shared = [i for i in got if i in cache_ids]
        ur.res['obligations'] += 1
        if not shared:
            ur.res['discharged'] += 1
            if len(ur.res['samples']) < 2:
                m = st.witness_model()
                if m is not None:
                    ur.sample({'call': '%s.%s' % (modname, func), 'argument': E.model_str(m, x), 'mutable_objects_returned': len(got), 'cached_mutable_objects': len(cache_ids)})
            continue
        m = st.witness_model()
        if m is None:
            continue
        xs = E.model_str(m, x)
        steps = [{'mod': 'history_probe', 'file': PROBE, 'func': 'mutate_and_repeat', 'args': [modname, func, xs], 'kwargs': {}}]
        real = ur.replay(steps)
        if real and real[0]['kind'] == 'ret' and real[0]['value'] is not True:
            ur.violation({'module': modname, 'func': func, 'options': '', 'kind': 'returned-object-aliases-the-registry-cache', 'witness': xs, 'steps': steps,
                          'detail': 'mutating the value returned by %s.%s(%r) changes the answer of the next identical call' % (modname, func, xs)})
        else:
            ur.divergence({'input': xs, 'symbolic': 'shared mutable object', 'real': real})
    return ur.finish()


class TraceDict(dict):
    """records the ordered accesses of real code to a shared dictionary and later mutations of published objects"""

    def __init__(self, log):
        dict.__init__(self)
        self.log = log

    def __contains__(self, k):
        r = dict.__contains__(self, k)
        self.log.append(('contains', k, r))
        return r

    def __getitem__(self, k):
        try:
            v = dict.__getitem__(self, k)
        except KeyError:
            self.log.append(('contains', k, False))
            raise
        self.log.append(('read', k, _fingerprint(v)))
        return v

    def get(self, k, default=None):
        if dict.__contains__(self, k):
            return self[k]
        self.log.append(('contains', k, False))
        return default

    def setdefault(self, k, default=None):
        if dict.__contains__(self, k):
            return self[k]
        self.log.append(('contains', k, False))
        self[k] = default
        return default

    def __setitem__(self, k, v):
        self.log.append(('publish', k, _fingerprint(v)))
        dict.__setitem__(self, k, v)


def _fingerprint(v):
    if hasattr(v, 'prefixes'):
        return ('numdb', _count(v.prefixes))
    return ('obj', getattr(v, '__name__', repr(v)[:40]))


def _count(p):
    return sum(1 + _count(e[4]) for e in p)


def unit_threads(unit):
    """trace one real call, then decide by z3 whether two/three threads running that trace can observe a partial object"""
    E.install(common.REPO)
    ur = UnitResult(unit, max_samples=2)
    what = unit['what']
    log = []
    if what == 'numdb.get':
        numdb = importlib.import_module('stdnum.numdb')
        saved = numdb._open_databases
        td = TraceDict(log)
        numdb._open_databases = td
        try:
            db = numdb.get(unit['arg'])
            final = _fingerprint(db)
            # was the published object complete when it was published?
            pub = [e for e in log if e[0] == 'publish']
        finally:
            numdb._open_databases = saved
    else:
        mod = importlib.import_module(what)
        saved = mod._country_modules
        td = TraceDict(log)
        mod._country_modules = td
        try:
            r = mod._get_cc_module(unit['arg'])
            final = _fingerprint(r)
            pub = [e for e in log if e[0] == 'publish']
        finally:
            mod._country_modules = saved
    # events of one thread: program order; a 'publish' whose fingerprint differs from the final fingerprint means that the
    # object is mutated after publication: model the mutation as one more event 'complete' after the publish
    events = []
    for e in log:
        events.append(e[0])
        if e[0] == 'publish' and e[2] != final:
            events.append('complete')
    T = unit['threads']
    if not events:
        ur.res['harness_errors'].append('no access to the shared dictionary was recorded for %s(%r)' % (what, unit['arg']))
        return ur.finish()
    s = z3.Solver()
    pos = [[z3.Int('t%d_e%d' % (t, i)) for i in range(len(events))] for t in range(T)]
    allp = [p for row in pos for p in row]
    s.add(z3.Distinct(allp))
    for row in pos:
        for i in range(len(row) - 1):
            s.add(row[i] < row[i + 1])
        s.add([z3.And(p >= 0, p < T * len(events)) for p in row])
    # bad: some thread's first access (contains/read) happens after another thread's publish and before that thread's 'complete'
    bad = []
    for a in range(T):
        for b in range(T):
            if a == b:
                continue
            for i, ev in enumerate(events):
                if ev == 'publish' and i + 1 < len(events) and events[i + 1] == 'complete':
                    for j, ev2 in enumerate(events):
                        if ev2 in ('contains', 'read'):
                            bad.append(z3.And(pos[b][j] > pos[a][i], pos[b][j] < pos[a][i + 1]))
    ur.res['states'] = 1
    ur.res['transitions'] = len(events) * T
    ur.res['obligations'] += 1
    E.STATS['checks'] += 1
    verdict = 'unsat'
    if bad:
        s.add(z3.Or(bad))
        t0 = time.time()
        r = s.check()
        E.STATS['solver_s'] += time.time() - t0
        verdict = str(r)
    ur.sample({'call': '%s(%r)' % (what, unit['arg']), 'threads': T, 'events_per_thread': events, 'interleaving_with_partial_object': verdict})
    if verdict == 'unsat':
        ur.res['discharged'] += 1
    elif verdict == 'sat':
        m = s.model()
        order = sorted((m.eval(p).as_long(), 'T%d:%s' % (t, events[i])) for t, row in enumerate(pos) for i, p in enumerate(row))
        steps = [{'mod': 'history_probe', 'file': PROBE, 'func': 'race_first_use', 'args': [what, unit['arg']], 'kwargs': {}}]
        real = ur.replay(steps)
        confirmed = bool(real and real[0]['kind'] == 'ret' and real[0]['value'] is not True)
        v = {'module': what if what != 'numdb.get' else 'stdnum.numdb', 'func': 'get' if what == 'numdb.get' else '_get_cc_module', 'options': '', 'kind': 'object-published-before-it-is-complete',
             'witness': unit['arg'], 'steps': steps, 'detail': 'interleaving: ' + ' '.join(o for _, o in order) + (' (reproduced with two real threads)' if confirmed else ' (model-level; real two-thread replay did not hit the window)')}
        if confirmed:
            ur.violation(v)
        else:
            ur.res['unconfirmed_counterexamples'] = ur.res.get('unconfirmed_counterexamples', 0) + 1
            ur.violation(v) if unit.get('report_unconfirmed') else ur.divergence({'input': unit['arg'], 'symbolic': v['detail'], 'real': real})
    else:
        ur.res['unknown'] += 1
    return ur.finish()


def unit_fn(unit):
    return {'history': unit_history, 'alias': unit_alias, 'threads': unit_threads}[unit['kind']](unit)


def main(args):
    tier = args.tier
    units = []
    for target, alias in (('stdnum.eu.vat', 'vat'), ('stdnum.vatin', 'vat'), ('stdnum.iban', 'iban')):
        units.append({'kind': 'history', 'module': target, 'target': target, 'alias': alias, 'L': 2, 'timeout': 150 if tier == 'quick' else 900})
    D, A = '0123456789', '0123456789ABCDEFGHIJKLMNOPQRSTUVWXYZ'
    consumers = [('stdnum.isbn', 'split', 13, D, '978'), ('stdnum.imsi', 'split', 15, D, ''), ('stdnum.cfi', 'info', 6, A, ''), ('stdnum.eu.nace', 'info', 4, D, ''),
                 ('stdnum.at.postleitzahl', 'info', 4, D, ''), ('stdnum.be.iban', 'info', 16, D, 'BE'), ('stdnum.cz.bankaccount', 'info', 14, D + '-/', ''),
                 ('stdnum.isil', 'validate', 8, A + '-', ''), ('stdnum.gs1_128', 'info', 10, A, ''), ('stdnum.imsi', 'info', 15, D, ''), ('stdnum.at.tin', 'info', 9, D, '')]
    for m, f, L, alpha, pre in consumers:
        units.append({'kind': 'alias', 'module': m, 'func': f, 'L': L, 'alphabet': alpha, 'prefix': pre, 'max_paths': 300 if tier == 'quick' else 5000, 'timeout': 40 if tier == 'quick' else 400})
    from .c10 import registries
    for name in registries():
        for T in (2, 3):
            units.append({'kind': 'threads', 'module': 'stdnum.numdb', 'what': 'numdb.get', 'arg': name, 'threads': T, 'L': 0, 'timeout': 60})
    for target, arg in (('stdnum.eu.vat', 'nl'), ('stdnum.eu.vat', 'xi'), ('stdnum.vatin', 'ch'), ('stdnum.iban', 'be'), ('stdnum.iban', 'nl')):
        units.append({'kind': 'threads', 'module': target, 'what': target, 'arg': arg, 'threads': 2, 'L': 0, 'timeout': 60})
    if getattr(args, 'units_only', False):
        return units
    if tier != 'quick':
        # thorough = the quick tier's units first (larger caps), then everything else while the budget lasts
        import copy
        qa = copy.copy(args)
        qa.tier, qa.units_only = 'quick', True
        units = common.plan_thorough(units, main(qa))
    rep = common.Report('C13', tier)
    rep.assumptions = ASSUMPTIONS
    rep.bounds = {'caches': ['stdnum.eu.vat._country_modules', 'stdnum.vatin._country_modules', 'stdnum.iban._country_modules', 'stdnum.numdb._open_databases'],
                  'alias_consumers': ['%s.%s' % (c[0], c[1]) for c in consumers], 'threads': [2, 3]}
    deadline = time.time() + (common.QUICK_S if tier == 'quick' else common.THOROUGH_S)

    def progress(done, total, res):
        if args.verbose:
            u = res['unit']
            print('[%d/%d] %s %s %s %s viol=%d unconfirmed=%s' % (done, total, u['kind'], u.get('target') or u.get('what') or (u['module'] + '.' + u.get('func', '')), res.get('outcomes', res.get('error', res.get('skipped'))), res.get('wall_s'), len(res.get('violations', [])), res.get('unconfirmed_counterexamples')), file=sys.stderr)
    for res in common.run_units(unit_fn, (units if tier == 'quick' else sorted(units, key=common._prio)), (lambda u: u.get('timeout', 200) * 2 + 100), progress, deadline):
        rep.add_unit(res)
    return rep.finish()
