# loaded by the pristine replay worker: runs the real WSGI application on one request
import importlib.machinery
import importlib.util
import json
import os
import sys
import urllib.parse

_app = {}


def _load(repo):
    if repo not in _app:
        path = os.path.join(repo, 'online_check', 'stdnum.wsgi')
        loader = importlib.machinery.SourceFileLoader('stdnum_wsgi_real', path)
        spec = importlib.util.spec_from_loader('stdnum_wsgi_real', loader)
        m = importlib.util.module_from_spec(spec)
        out = sys.stdout
        loader.exec_module(m)
        sys.stdout = out          # the application redirects stdout to stderr at import
        _app[repo] = m
    return _app[repo]


def request(repo, numbers, ajax, only_module=None):
    """numbers: list of values of the number parameter (possibly empty); returns status, content type, body, and the list of
    modules whose is_valid() accepts the first number"""
    m = _load(repo)
    qs = urllib.parse.urlencode([('number', n) for n in numbers], errors='surrogatepass')
    environ = {'DOCUMENT_ROOT': os.path.join(repo, 'online_check'), 'SCRIPT_NAME': '/stdnum.wsgi', 'QUERY_STRING': qs}
    if ajax:
        environ['HTTP_X_REQUESTED_WITH'] = 'XMLHttpRequest'
    seen = []
    saved = m.get_number_modules
    if only_module:
        import importlib
        mod = importlib.import_module(only_module)
        m.get_number_modules = lambda: [mod]
    try:
        body = b''.join(m.application(environ, lambda status, headers: seen.append((status, headers))))
    finally:
        m.get_number_modules = saved
    text = body.decode('utf-8')
    res = {'calls': len(seen), 'status': seen[0][0] if seen else None, 'body': text,
           'content_type': dict(seen[0][1]).get('Content-Type') if seen else None}
    if ajax:
        res['json'] = json.loads(text)
    return res
