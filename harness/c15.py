# C15: see DESIGN.md section 5 (C15) and harness/vfamily.py
from . import vfamily_main


def main(args):
    return vfamily_main.main('C15', args)
