# C01 / C02 / C15: obligations on every path of module.validate(x, **options) for a fully symbolic string x
import importlib
import json
import sys
import time

import z3

from symx import engine as E
from symx.replay import step, Ref
from . import common
from .symrun import UnitResult, same_value, jsonable

GENERIC = {'stdnum.luhn', 'stdnum.verhoeff', 'stdnum.damm', 'stdnum.iso7064.mod_11_2', 'stdnum.iso7064.mod_37_2',
           'stdnum.iso7064.mod_11_10', 'stdnum.iso7064.mod_37_36', 'stdnum.iso7064.mod_97_10'}
C15_NATIONAL = {'stdnum.de.handelsregisternummer', 'stdnum.mx.rfc', 'stdnum.es.referenciacatastral'}


def _isspace_z(c):
    if isinstance(c, int):
        return z3.BoolVal(chr(c).isspace())
    return E.in_ranges(c, E.table('isspace'))


def kw_for_worker(opts):
    return opts


def unit_shapes(unit):
    """C01 on non-string values: evaluated on the real code (no free variable to solve for): None, bool, int, float, bytes,
    lists / tuples / dicts of non-strings, a plain object and a str subclass instance"""
    from symx.replay import Obj, StrSub
    ur = UnitResult(unit, max_samples=4)
    shapes = [('None', None), ('True', True), ('int', 7132), ('negative int', -5), ('float', 1.5), ('nan', float('nan')), ('bytes', b'0123456789'),
              ('empty bytes', b''), ('list of ints', [1, 2, 3]), ('list with None', ['1', None]), ('tuple', (1, '2')), ('dict', {'a': 1}), ('empty list', []),
              ('object', Obj()), ('str subclass', StrSub('0123456789')), ('set', {'1'}), ('nested list', [['1', '2'], '3']),
              # "very long text" (beyond int()'s 4300-digit limit); the symbolic counterpart are the `repeat` units
              ('5000 digits', '1' * 5000), ('5000 zeros', '0' * 5000), ('100000 digits', '7' * 100000), ('5000 letters', 'A' * 5000),
              ('6000 separated digits', ' 1' * 3000), ('5000 non-ASCII digits', '\u0661' * 5000)]
    facts = 0
    for modname in unit['modules']:
        for label, v in shapes:
            real = ur.replay([step(modname, 'validate', v), step(modname, 'is_valid', v)])
            if real is None:
                continue
            facts += 1
            r0, r1 = real
            bad = None
            if r0['kind'] == 'exc' and not r0['validation_error']:
                bad = ('foreign-exception', 'validate', r0)
            elif r0['kind'] == 'ret' and r0['type'] != 'str' and not label.startswith('str subclass'):
                bad = ('non-str-return', 'validate', r0)
            elif r1['kind'] == 'exc':
                bad = ('is_valid-raises', 'is_valid', r1)
            elif r1['type'] != 'bool' or r1['value'] != (r0['kind'] == 'ret'):
                bad = ('is_valid-disagrees', 'is_valid', r1)
            ur.res['obligations'] += 1
            if bad is None:
                ur.res['discharged'] += 1
                continue
            kind, func, r = bad
            ur.violation({'module': modname, 'func': func, 'options': '', 'kind': kind, 'exc_type': r.get('type') if r['kind'] == 'exc' else '', 'frame': r.get('frame', ''),
                          'witness': label, 'detail': 'argument shape (%s): %s' % (label, r.get('msg') or r.get('value')),
                          'steps': [step(modname, 'validate', v), step(modname, 'is_valid', v)]})
    ur.res['states'] = max(1, facts)
    ur.res['transitions'] = max(1, facts)
    ur.sample({'non_string_shapes': [l for l, v in shapes], 'modules': len(unit['modules']), 'ground_facts': facts})
    return ur.finish()


def unit_fn(unit):
    if unit.get('kind') == 'shapes':
        return unit_shapes(unit)
    prop = unit['prop']
    modname, opts, L, K = unit['module'], unit['options'], unit['L'], unit['K']
    E.install(common.REPO)
    E.CONFIG['K'] = K
    E.CONFIG['query_timeout_ms'] = unit.get('query_timeout_ms', 10000)
    mod = importlib.import_module(modname)
    VE = sys.modules['stdnum.exceptions'].ValidationError
    ur = UnitResult(unit)
    call_is_valid = unit.get('is_valid_takes_options', True)
    pyopts = {k: (tuple(tuple(r) for r in v) if isinstance(v, list) else v) for k, v in opts.items()}

    def body():
        x, chars = common.sym_input(E, unit)
        rec = {'x': x}
        try:
            rec['v'] = mod.validate(x, **pyopts)
            rec['kind'] = 'ret'
        except VE as e:
            rec['kind'] = 'verr'
            rec['exc'] = e
        except Exception as e:
            rec['kind'] = 'exc'
            rec['exc'] = e
        if prop == 'C01' and call_is_valid:
            try:
                rec['iv'] = mod.is_valid(x, **pyopts)
            except Exception as e:
                rec['iv_exc'] = e
        if prop == 'C02' and rec['kind'] == 'ret' and isinstance(rec['v'], (str, E.SStr)):
            try:
                rec['w'] = mod.validate(rec['v'], **pyopts)
                rec['wkind'] = 'ret'
            except Exception as e:
                rec['wkind'] = 'exc'
                rec['w_exc'] = e
        return rec

    nret = 0
    for st, out in E.explore(body, max_paths=unit.get('max_paths', 3000), timeout=unit.get('timeout', 60)):
        if st is None:
            ur.limit(out)
            break
        ur.path(st, out)
        if out[0] == 'exc':
            ur.res['harness_errors'].append('exception escaped harness body: %r' % (out[1],))
            continue
        if out[0] != 'ret':
            continue
        rec = out[1]
        model = st.witness_model()
        if model is None:
            if getattr(st, 'last_status', '') == 'unknown':
                ur.res['unknown'] += 1
            ur.outcome('no-witness')     # path infeasible under the full condition, or solver unknown (counted in st.unknown)
            continue
        xs = E.model_val(model, rec['x']) if isinstance(rec['x'], (list, tuple)) else E.model_str(model, rec['x'])
        today = ur.today_of(st, model)
        base = {'module': modname, 'func': 'validate', 'options': json.dumps(opts, sort_keys=True) if opts else '',
                'witness': xs, 'today': today.isoformat() if today else None, 'L': L, 'tags': list(st.tags)}
        steps = [step(modname, 'validate', xs, **pyopts)]
        if prop == 'C01' and call_is_valid:
            steps.append(step(modname, 'is_valid', xs, **pyopts))
        if prop == 'C02':
            steps.append(step(modname, 'validate', Ref(0), **pyopts))
        real = ur.replay(steps, today)
        if real is None:
            continue
        r0 = real[0]
        # --- engine validation: symbolic outcome vs real outcome on the witness
        agree = True
        if rec['kind'] == 'ret':
            vc = E.model_val(model, rec['v'])
            agree = r0['kind'] == 'ret' and same_value(vc, r0) is not False
        elif rec['kind'] == 'verr':
            agree = r0['kind'] == 'exc' and r0['validation_error'] and r0['type'] == type(rec['exc']).__name__
        else:
            agree = r0['kind'] == 'exc' and not r0['validation_error'] and r0['type'] == type(rec['exc']).__name__
        if not agree:
            ur.divergence({'input': xs, 'symbolic': rec['kind'] + ':' + (type(rec.get('exc')).__name__ if rec.get('exc') is not None else repr(E.model_val(model, rec.get('v')))),
                           'real': {k: r0.get(k) for k in ('kind', 'type', 'value', 'frame')}, 'today': base['today']})
            continue
        if rec['kind'] == 'ret':
            nret += 1
        ur.sample({'module': modname, 'L': L, 'input': xs, 'outcome': rec['kind'] if rec['kind'] != 'verr' else type(rec['exc']).__name__,
                   'tags': list(st.tags)})
        # --- property obligations
        if prop == 'C01':
            _c01(ur, st, rec, base, real, model)
        elif prop == 'C02' and rec['kind'] == 'ret':
            _c02(ur, st, rec, base, real, model)
        elif prop == 'C15' and rec['kind'] == 'ret':
            _c15(ur, st, rec, base, real, model)
    ur.res['accepting_paths'] = nret
    if prop in ('C02', 'C15') and nret == 0:
        ur.res['vacuous'] = True
    return ur.finish()


def _c01(ur, st, rec, base, real, model):
    r0 = real[0]
    # (a) only ValidationError escapes, a returned value is a str
    ur.res['obligations'] += 1
    if rec['kind'] == 'exc':
        ur.violation(dict(base, kind='foreign-exception', exc_type=r0['type'], frame=r0['frame'], detail=r0.get('msg', '')[:80]))
    elif rec['kind'] == 'ret' and r0['type'] != 'str':
        ur.violation(dict(base, kind='non-str-return', detail=r0['type']))
    else:
        ur.res['discharged'] += 1
    # (b)+(c) is_valid never raises, returns exactly True/False, and agrees with validate
    if len(real) > 1:
        r1 = real[1]
        ok = rec['kind'] == 'ret'
        ur.res['obligations'] += 1
        sym_bad = None
        if 'iv_exc' in rec:
            sym_bad = 'is_valid-raises'
        else:
            iv = rec.get('iv')
            if isinstance(iv, E.SBool):
                res, m2 = ur.obligation(st, iv.z == z3.BoolVal(ok))
                ur.res['obligations'] -= 1
                if res == 'sat':
                    sym_bad = 'is_valid-disagrees'
                elif res == 'unknown':
                    ur.res['unknown'] += 1
            elif iv is not True and iv is not False:
                sym_bad = 'is_valid-not-bool'
            elif iv != ok:
                sym_bad = 'is_valid-disagrees'
        real_bad = None
        if r1['kind'] == 'exc':
            real_bad = 'is_valid-raises'
        elif r1['type'] != 'bool':
            real_bad = 'is_valid-not-bool'
        elif r1['value'] != (r0['kind'] == 'ret'):
            real_bad = 'is_valid-disagrees'
        if real_bad:
            ur.violation(dict(base, func='is_valid', kind=real_bad, exc_type=r1.get('type') if r1['kind'] == 'exc' else '',
                              frame=r1.get('frame', ''), detail='validate: %s, is_valid: %s' % (r0.get('type'), r1.get('value', r1.get('type')))))
        elif sym_bad:
            ur.divergence({'input': base['witness'], 'symbolic': sym_bad, 'real': r1})
        elif not isinstance(rec.get('iv'), E.SBool):
            ur.res['discharged'] += 1


def _c02(ur, st, rec, base, real, model):
    v = rec['v']
    r0, r1 = real[0], real[1]
    # (1) the second validation returns
    ur.res['obligations'] += 1
    if rec['wkind'] != 'ret':
        if r1['kind'] == 'exc':
            ur.violation(dict(base, kind='rejects-own-output', exc_type=r1['type'], frame=r1['frame'],
                              detail='validate(x)=%r' % (r0['value'],)))
        else:
            ur.divergence({'input': base['witness'], 'symbolic': 'second validate raises %r' % (rec.get('w_exc'),), 'real': r1})
        return
    ur.res['discharged'] += 1
    # (2) ... and returns exactly v
    vs, ws = E.SStr.of(v), rec['w']
    if not isinstance(ws, (str, E.SStr)):
        ur.res['harness_errors'].append('second validate returned %r' % type(ws))
        return
    eq = vs._eqz(ws)
    res, m2 = ur.obligation(st, eq)
    if res == 'sat':
        _confirm_c02(ur, st, rec, base, m2, 'not-idempotent')
    # (3) no leading / trailing whitespace
    if len(vs) > 0:
        phi = z3.And(z3.Not(_isspace_z(vs.chars[0])), z3.Not(_isspace_z(vs.chars[-1])))
        res, m2 = ur.obligation(st, phi)
        if res == 'sat':
            _confirm_c02(ur, st, rec, base, m2, 'whitespace')
    else:
        ur.trivial_obligation()


def _confirm_c02(ur, st, rec, base, m2, kind):
    xs = E.model_val(m2, rec['x']) if isinstance(rec['x'], (list, tuple)) else E.model_str(m2, rec['x'])
    today = ur.today_of(st, m2)
    opts = json.loads(base['options']) if base['options'] else {}
    real = ur.replay([step(base['module'], 'validate', xs, **opts), step(base['module'], 'validate', Ref(0), **opts)], today)
    if real is None:
        return
    r0, r1 = real
    bad = False
    if r0['kind'] == 'ret' and r0['type'] == 'str':
        v = r0['value']
        if kind == 'whitespace':
            bad = v != v.strip()
        else:
            bad = r1['kind'] != 'ret' or r1['value'] != v
    if bad:
        ur.violation(dict(base, witness=xs, today=today.isoformat() if today else None, kind=kind,
                          detail='validate(x)=%r then %r' % (r0['value'], r1.get('value', r1.get('type')))))
    else:
        ur.divergence({'input': xs, 'symbolic': kind, 'real': [r0, r1]})


def _c15(ur, st, rec, base, real, model):
    vs = E.SStr.of(rec['v'])
    syms = [c for c in vs.chars if not isinstance(c, int)]
    conc_bad = [c for c in vs.chars if isinstance(c, int) and c >= 128]
    if conc_bad:
        phi = False
    elif not syms:
        ur.trivial_obligation()
        return
    else:
        phi = z3.And([c < 128 for c in syms])
    res, m2 = ur.obligation(st, phi)
    if res != 'sat':
        return
    xs = E.model_str(m2, rec['x'])
    today = ur.today_of(st, m2)
    opts = json.loads(base['options']) if base['options'] else {}
    r = ur.replay([step(base['module'], 'validate', xs, **opts)], today)
    if r is None:
        return
    r0 = r[0]
    if r0['kind'] == 'ret' and isinstance(r0['value'], str) and not r0['value'].isascii():
        ur.violation(dict(base, witness=xs, today=today.isoformat() if today else None, kind='non-ascii-output',
                          detail='validate(x)=%r' % (r0['value'],)))
    else:
        ur.divergence({'input': xs, 'symbolic': 'non-ascii-output', 'real': r0})


def make_units(prop, tier, only=None):
    from spec.options import option_sets, accepted_by
    intro = common.introspect()
    units = []
    if prop == 'C01':
        names = [m for m in sorted(intro) if not only or m in only]
        for i in range(0, len(names), 40):
            units.append({'prop': prop, 'kind': 'shapes', 'module': 'non-string values', 'modules': names[i:i + 40], 'options': {}, 'L': 0, 'K': 0, 'max_paths': 1, 'timeout': 120, 'query_timeout_ms': 1000})
    for modname, info in sorted(intro.items()):
        if only and modname not in only:
            continue
        if prop == 'C15' and (modname in GENERIC or modname in C15_NATIONAL):
            continue
        Ls = common.lengths_for(info, tier)
        for opts in option_sets(modname, info, tier):
            for L in Ls:
                u = {'prop': prop, 'module': modname, 'options': opts, 'L': L, 'K': 1,
                     'is_valid_takes_options': accepted_by(info, 'is_valid', opts)}
                if tier == 'quick':
                    u.update(max_paths=2000, timeout=30, query_timeout_ms=5000)
                else:
                    u.update(max_paths=50000, timeout=600, query_timeout_ms=60000)
                units.append(u)
        for L in common.short_lengths(info, tier, modname):
            u = {'prop': prop, 'module': modname, 'options': {}, 'L': L, 'K': 1, 'prio': 2, 'is_valid_takes_options': True}
            u.update(dict(max_paths=400, timeout=8, query_timeout_ms=4000) if tier == 'quick' else dict(max_paths=5000, timeout=60, query_timeout_ms=30000))
            units.append(u)
        if prop == 'C01' and Ls:
            for shape in ('list', 'tuple') if tier != 'quick' else ('list',):
                u = {'prop': prop, 'module': modname, 'options': {}, 'L': min(Ls[0], 6), 'K': 1, 'shape': shape, 'is_valid_takes_options': True}
                u.update(dict(max_paths=400, timeout=8, query_timeout_ms=4000) if tier == 'quick' else dict(max_paths=5000, timeout=120, query_timeout_ms=30000))
                units.append(u)
        if prop == 'C01':
            # "very long text": two symbolic characters repeated to 4302 characters (one more than int()'s digit limit)
            u = {'prop': prop, 'module': modname, 'options': {}, 'L': 2, 'repeat': 2151, 'K': 1, 'prio': 3, 'is_valid_takes_options': True}
            u.update(dict(max_paths=8, timeout=12, query_timeout_ms=3000) if tier == 'quick' else dict(max_paths=400, timeout=120, query_timeout_ms=20000))
            units.append(u)
        import random
        rnd = random.Random(common.seed() * 7919 + len(units))
        for lit, pos in common.neighbourhoods(info, 2 if tier == 'quick' else 12, rnd):
            osets = option_sets(modname, info, tier)
            o = osets[rnd.randrange(len(osets))]
            u = {'prop': prop, 'module': modname, 'options': o, 'L': len(lit), 'K': 2, 'literal': lit, 'positions': pos, 'is_valid_takes_options': accepted_by(info, 'is_valid', o)}
            u.update(dict(max_paths=300, timeout=10, query_timeout_ms=5000) if tier == 'quick' else dict(max_paths=5000, timeout=120, query_timeout_ms=30000))
            units.append(u)
    return units
