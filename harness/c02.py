# C02: see DESIGN.md section 5 (C02) and harness/vfamily.py
from . import vfamily_main


def main(args):
    return vfamily_main.main('C02', args)
