# C10: registry lookup splits numbers losslessly and by the documented prefix rules (DESIGN.md section 5, C10)
#  (a) symbolic registries: NumDB.prefixes built directly with SYMBOLIC range endpoints (several shapes), symbolic query;
#      the real NumDB.info() against the reference reading spec/numdb_ref.find (run through the same engine)
#  (b) shipped registries: the real parsed database, symbolic query (optionally pinned to one top-level entry's range)
#  (c) reader: generated registry lines with symbolic property values / range endpoints through the real read()
import importlib
import io
import json
import os
import sys
import time

import z3

from symx import engine as E
from symx.replay import step
from . import common
from .symrun import UnitResult

ASSUMPTIONS = [
    '(a) registries of the enumerated shapes only (<= 2 levels, <= 3 ranges per level, range lengths 1-2), endpoints arbitrary digit strings with low <= high, queries up to the stated length over digits',
    '(b) queries over the registry\'s own alphabet (digits, or digits + upper-case letters) up to the stated length; for large registries the query is pinned to a sample of top-level entries (seed-rotated)',
    '(c) one registry line of the enumerated templates with symbolic property-value characters (any character except double quote, CR, LF) and symbolic digit endpoints',
    'reference semantics = spec/numdb_ref.py (written from the property text); property values are opaque strings',
]

# shapes: list of top-level entries (length, [child lengths]); order in the list = file order
SHAPES_QUICK = [
    [(1, [1]), (1, []), (2, [1])],
    [(2, [1]), (1, [2]), (1, [])],
    [(2, [1, 1]), (1, [])],
    [(1, []), (2, [1, 2]), (2, [])],
    [(2, [2]), (2, [1])],
]
SHAPES_THOROUGH = SHAPES_QUICK + [
    [(1, [1, 1]), (1, [2])], [(3, [1]), (1, [1]), (2, [])], [(2, []), (2, []), (1, [1])], [(1, [2]), (2, [1]), (2, [2])],
    [(2, [1]), (2, [1]), (1, [])], [(1, [1]), (2, [1]), (3, [1])],
]


def _digits(name, n):
    s, chars = E.symstr(n, name, 48, 57)
    return s


def eq_results(a, b):
    if len(a) != len(b):
        return z3.BoolVal(False)
    conj = []
    for (pa, da), (pb, db_) in zip(a, b):
        if da != db_:
            return z3.BoolVal(False)
        pa, pb = E.SStr.of(pa), E.SStr.of(pb)
        if len(pa) != len(pb):
            return z3.BoolVal(False)
        conj.append(pa._eqz(pb))
    return z3.And(conj) if conj else z3.BoolVal(True)


def concat_eq(res, q):
    cat = []
    for p, _ in res:
        cat.extend(E.SStr.of(p).chars)
    q = E.SStr.of(q)
    if len(cat) != len(q):
        return z3.BoolVal(False)
    return E.SStr(cat)._eqz(q) if cat else z3.BoolVal(True)


def _ref():
    return E.load_file('numdb_ref_sym', os.path.join(common.VERIF, 'spec', 'numdb_ref.py'))


def unit_sym(unit):
    shape, qlen = unit['shape'], unit['qlen']
    E.install(common.REPO)
    E.CONFIG['K'] = 9
    numdb = importlib.import_module('stdnum.numdb')
    ref = _ref()
    ur = UnitResult(unit)

    def body():
        db = numdb.NumDB()
        k = 0
        for (length, kids) in shape:
            k += 1
            low, high = _digits('l%d_' % k, length), _digits('h%d_' % k, length)
            E.assume(low <= high)
            children = []
            for j, kl in enumerate(kids):
                k += 1
                cl, ch = _digits('l%d_' % k, kl), _digits('h%d_' % k, kl)
                E.assume(cl <= ch)
                children.append([kl, cl, ch, {'q%d' % j: 'c%d' % k}, []])
            db.prefixes.append([length, low, high, {'p%d' % len(db.prefixes): 'v%d' % k, 'common': 'x%d' % k}, children])
        q = _digits('q', qlen)
        return db, q, db.info(q), ref.find(q, db.prefixes)
    for st, out in E.explore(body, max_paths=unit['max_paths'], timeout=unit['timeout']):
        if st is None:
            ur.limit(out)
            break
        ur.path(st, out)
        if out[0] == 'exc':
            ur.res['harness_errors'].append('lookup raised %r' % (out[1],))
            continue
        if out[0] != 'ret':
            continue
        db, q, res, want = out[1]
        for name, phi in (('parts-do-not-concatenate-to-the-number', concat_eq(res, q)), ('split-or-properties-differ-from-the-prefix-rules', eq_results(res, want))):
            r, m2 = ur.obligation(st, phi)
            if r != 'sat':
                continue
            # replay on the real code: build the registry file text and the query
            text = _registry_text(m2, db.prefixes)
            qs = E.model_str(m2, q)
            _confirm(ur, name, text, qs)
        if len(ur.res['samples']) < 2:
            m = st.witness_model()
            if m is not None:
                ur.sample({'registry': _registry_text(m, db.prefixes), 'query': E.model_str(m, q), 'result': E.model_val(m, res)})
    return ur.finish()


def _registry_text(model, prefixes, indent=0):
    lines = []
    for length, low, high, props, children in prefixes:
        lo, hi = E.model_str(model, low), E.model_str(model, high)
        lines.append(' ' * indent + (lo if lo == hi else lo + '-' + hi) + ''.join(' %s="%s"' % kv for kv in props.items()))
        if children:
            lines.append(_registry_text(model, children, indent + 1))
    return '\n'.join(lines)


_HELPER = os.path.join(common.VERIF, 'harness', 'numdb_probe.py')


def _confirm(ur, name, text, qs):
    """real read() + info() in the pristine interpreter vs the reference on the same concrete registry"""
    real = ur.replay([{'mod': 'numdb_probe', 'file': _HELPER, 'func': 'probe', 'args': [text, qs], 'kwargs': {}}])
    if real is None:
        return
    r = real[0]
    if r['kind'] != 'ret':
        ur.res['harness_errors'].append('probe failed: %r' % (r,))
        return
    from .relfam import _dec
    got = _dec(r)
    from spec import numdb_ref
    want = numdb_ref.find(qs, numdb_ref.parse_file(text))
    want = [[p, d] for p, d in want]
    gotl = [[p, d] for p, d in got]
    bad = (''.join(p for p, d in gotl) != qs) if name.startswith('parts') else (gotl != want)
    if bad:
        ur.violation({'module': 'stdnum.numdb', 'func': 'info', 'options': '', 'kind': name, 'witness': [text, qs],
                      'steps': [{'mod': 'numdb_probe', 'file': _HELPER, 'func': 'probe', 'args': [text, qs], 'kwargs': {}}],
                      'detail': 'info(%r) -> %r, prefix rules give %r' % (qs, gotl, want)})
    else:
        ur.divergence({'input': [text, qs], 'symbolic': name, 'real': gotl})


def unit_shipped(unit):
    name, qlen = unit['registry'], unit['qlen']
    E.install(common.REPO)
    E.CONFIG['K'] = 9
    numdb = importlib.import_module('stdnum.numdb')
    ref = _ref()
    ur = UnitResult(unit)
    db = numdb.get(name)
    alnum = unit['alnum']
    pins = unit.get('pins') or [None]
    t_end = time.time() + unit['timeout']
    for pin in pins:
        if time.time() > t_end:
            ur.res['limit'] = 1
            break

        def body():
            if alnum:
                q, chars = E.symstr_alpha(qlen, '0123456789ABCDEFGHIJKLMNOPQRSTUVWXYZ', 'q')
            else:
                q, chars = E.symstr(qlen, 'q', 48, 57)
            if pin is not None:
                # prefix concretisation: the head is a concrete value of the pinned entry's range, the tail is symbolic,
                # so comparisons against all other entries fold to constants (DESIGN.md C10b)
                head = pin
                if qlen < len(head):
                    raise E.Assume('short')
                q = E.SStr([ord(ch) for ch in head] + chars[len(head):])
            return q, db.info(q), ref.find(q, db.prefixes)
        for st, out in E.explore(body, max_paths=unit['max_paths'], timeout=max(1, t_end - time.time())):
            if st is None:
                ur.limit(out)
                break
            ur.path(st, out)
            if out[0] == 'exc':
                ur.res['harness_errors'].append('lookup raised %r' % (out[1],))
                continue
            if out[0] != 'ret':
                continue
            q, res, want = out[1]
            for kind, phi in (('parts-do-not-concatenate-to-the-number', concat_eq(res, q)), ('split-or-properties-differ-from-the-prefix-rules', eq_results(res, want))):
                r, m2 = ur.obligation(st, phi)
                if r != 'sat':
                    continue
                qs = E.model_str(m2, q)
                real = ur.replay([{'mod': 'numdb_probe', 'file': _HELPER, 'func': 'probe_shipped', 'args': [name, qs], 'kwargs': {}}])
                if real is None or real[0]['kind'] != 'ret':
                    continue
                from .relfam import _dec
                got = [[p, d] for p, d in _dec(real[0])]
                from spec import numdb_ref
                text = open(os.path.join(common.REPO, 'stdnum', name + '.dat'), encoding='utf-8').read()
                want2 = [[p, d] for p, d in numdb_ref.find(qs, numdb_ref.parse_file(text))]
                bad = (''.join(p for p, d in got) != qs) if kind.startswith('parts') else (got != want2)
                if bad:
                    ur.violation({'module': 'stdnum.numdb', 'func': 'info', 'options': name, 'kind': kind, 'witness': qs,
                                  'steps': [{'mod': 'numdb_probe', 'file': _HELPER, 'func': 'probe_shipped', 'args': [name, qs], 'kwargs': {}}],
                                  'detail': '%s: info(%r) -> %r, prefix rules give %r' % (name, qs, got[:4], want2[:4])})
                else:
                    ur.divergence({'input': [name, qs], 'symbolic': kind, 'real': got[:4]})
            if len(ur.res['samples']) < 2:
                m = st.witness_model()
                if m is not None:
                    ur.sample({'registry': name, 'query': E.model_str(m, q), 'parts': [E.model_val(m, p) for p, d in res]})
    return ur.finish()


TEMPLATES = [
    # (template with {lo} {hi} {v1} {v2}, number of endpoint digits)
    ('{lo}-{hi} name="{v1}" other="{v2}"', 2),
    ('{lo} k="{v1}"', 3),
    ('{lo},{hi} a-b_c="{v1}" z="{v2}"', 1),
]


def unit_reader(unit):
    tmpl, nd = TEMPLATES[unit['template']]
    vlen = unit['vlen']
    E.install(common.REPO)
    E.CONFIG['K'] = 9
    numdb = importlib.import_module('stdnum.numdb')
    ur = UnitResult(unit)

    def body():
        lo, hi = _digits('lo', nd), _digits('hi', nd)
        v1, c1 = E.symstr(vlen, 'v1')
        v2, c2 = E.symstr(max(0, vlen - 1), 'v2')
        for c in c1 + c2:
            E.assume(z3.And(c != 34, c != 10, c != 13))
        parts = tmpl.replace('{lo}', '\0lo\0').replace('{hi}', '\0hi\0').replace('{v1}', '\0v1\0').replace('{v2}', '\0v2\0').split('\0')
        vals = {'lo': lo, 'hi': hi, 'v1': v1, 'v2': v2 if len(c2) else ''}
        chars = []
        for p in parts:
            chars.extend(E.SStr.of(vals[p] if p in vals else p).chars)
        line = E.mk(chars + [10])
        db = numdb.read([line])
        return (lo, hi, v1, vals['v2'], line), db.prefixes
    for st, out in E.explore(body, max_paths=unit['max_paths'], timeout=unit['timeout']):
        if st is None:
            ur.limit(out)
            break
        ur.path(st, out)
        if out[0] == 'exc':
            m = st.witness_model()
            line = E.model_str(m, E.SStr.of('')) if m is None else None
            ur.res['harness_errors'].append('read() raised %r' % (out[1],))
            continue
        if out[0] != 'ret':
            continue
        (lo, hi, v1, v2, line), prefixes = out[1]
        # expected structure of the line
        want_props = {}
        names = [seg.split('=')[0].strip() for seg in tmpl.split(' ')[1:]]
        want_props[names[0]] = v1
        if len(names) > 1:
            want_props[names[1]] = v2
        ranges = [(lo, hi)] if '-' in tmpl.split(' ')[0] else ([(lo, lo), (hi, hi)] if ',' in tmpl.split(' ')[0] else [(lo, lo)])
        ok = len(prefixes) == len(ranges)
        conj = []
        if ok:
            for (length, l, h, props, children), (wl, wh) in zip(prefixes, ranges):
                if length != len(E.SStr.of(wl)) or set(props) != set(want_props) or children:
                    ok = False
                    break
                conj.append(E.SStr.of(l)._eqz(wl) if len(E.SStr.of(l)) == len(E.SStr.of(wl)) else z3.BoolVal(False))
                conj.append(E.SStr.of(h)._eqz(wh) if len(E.SStr.of(h)) == len(E.SStr.of(wh)) else z3.BoolVal(False))
                for k2, v in want_props.items():
                    pv = E.SStr.of(props[k2])
                    conj.append(pv._eqz(v) if len(pv) == len(E.SStr.of(v)) else z3.BoolVal(False))
        phi = z3.And(conj) if (ok and conj) else z3.BoolVal(bool(ok))
        r, m2 = ur.obligation(st, phi)
        if r == 'sat':
            ls = E.model_str(m2, line)
            real = ur.replay([{'mod': 'numdb_probe', 'file': _HELPER, 'func': 'probe_read', 'args': [ls], 'kwargs': {}}])
            if real is None or real[0]['kind'] != 'ret':
                continue
            from .relfam import _dec
            got = _dec(real[0])
            from spec import numdb_ref
            want = numdb_ref.parse_file(ls)
            if json.dumps(got, sort_keys=True) != json.dumps(want, sort_keys=True):
                ur.violation({'module': 'stdnum.numdb', 'func': 'read', 'options': '', 'kind': 'line-not-understood-completely', 'witness': ls,
                              'steps': [{'mod': 'numdb_probe', 'file': _HELPER, 'func': 'probe_read', 'args': [ls], 'kwargs': {}}],
                              'detail': 'read(%r) -> %r, grammar gives %r' % (ls, got, want)})
            else:
                ur.divergence({'input': ls, 'symbolic': 'read differs', 'real': got})
        elif len(ur.res['samples']) < 2:
            m = st.witness_model()
            if m is not None:
                ur.sample({'line': E.model_str(m, line)})
    return ur.finish()


def unit_fn(unit):
    return {'sym': unit_sym, 'shipped': unit_shipped, 'reader': unit_reader}[unit['kind']](unit)


def registries():
    root = os.path.join(common.REPO, 'stdnum')
    out = []
    for d, _, files in os.walk(root):
        for f in files:
            if f.endswith('.dat'):
                out.append(os.path.relpath(os.path.join(d, f), root)[:-4])
    return sorted(out)


def main(args):
    tier = args.tier
    units = []
    shapes = SHAPES_QUICK if tier == 'quick' else SHAPES_THOROUGH
    for si, shape in enumerate(shapes):
        for qlen in ((0, 1, 2, 3, 4) if tier == 'quick' else (0, 1, 2, 3, 4, 5)):
            units.append({'kind': 'sym', 'module': 'stdnum.numdb', 'shape': shape, 'qlen': qlen, 'L': qlen,
                          'max_paths': 6000 if tier == 'quick' else 60000, 'timeout': 60 if tier == 'quick' else 900})
    from spec import numdb_ref
    import random
    rnd = random.Random(common.seed())
    for name in registries():
        text = open(os.path.join(common.REPO, 'stdnum', name + '.dat'), encoding='utf-8').read()
        try:
            tree = numdb_ref.parse_file(text)
        except Exception as e:
            units.append({'kind': 'shipped', 'module': 'stdnum.numdb', 'registry': name, 'qlen': 0, 'L': 0, 'alnum': False, 'pins': [], 'max_paths': 1, 'timeout': 1, 'note': 'reference parser rejects the file: %s' % e})
            continue
        alnum = any(not (lo + hi).isdigit() for _, lo, hi, _, _ in tree)

        def depth(t):
            return 0 if not t else max(e[0] + depth(e[4]) for e in t)
        dlen = min(depth(tree) + 1, 7 if tier == 'quick' else 10)
        big = len(tree) > 120
        if big:
            k = 6 if tier == 'quick' else 60
            pins = sorted(set(h for e in rnd.sample(tree, min(k, len(tree))) for h in (e[1], e[2])))
        else:
            pins = None
        for qlen in sorted(set([1, 2, dlen])):
            units.append({'kind': 'shipped', 'module': 'stdnum.numdb', 'registry': name, 'qlen': qlen, 'L': qlen, 'alnum': alnum, 'pins': pins,
                          'max_paths': 3000 if tier == 'quick' else 50000, 'timeout': 40 if tier == 'quick' else 900})
    for ti in range(len(TEMPLATES)):
        for vlen in ((1, 3) if tier == 'quick' else (0, 1, 2, 3, 4, 6)):
            units.append({'kind': 'reader', 'module': 'stdnum.numdb', 'template': ti, 'vlen': vlen, 'L': vlen,
                          'max_paths': 4000 if tier == 'quick' else 40000, 'timeout': 60 if tier == 'quick' else 600})
    if getattr(args, 'units_only', False):
        return units
    if tier != 'quick':
        # thorough = the quick tier's units first (larger caps), then everything else while the budget lasts
        import copy
        qa = copy.copy(args)
        qa.tier, qa.units_only = 'quick', True
        units = common.plan_thorough(units, main(qa))
    rep = common.Report('C10', tier)
    rep.assumptions = ASSUMPTIONS
    rep.bounds = {'shapes': shapes, 'registries': registries(), 'templates': [t for t, n in TEMPLATES]}
    deadline = time.time() + (common.QUICK_S if tier == 'quick' else common.THOROUGH_S)

    def progress(done, total, res):
        if args.verbose:
            u = res['unit']
            print('[%d/%d] %s %s %s %s %s unknown=%s' % (done, total, u['kind'], u.get('registry') or u.get('shape') or u.get('template'), u['L'],
                                                        res.get('outcomes', res.get('error', res.get('skipped'))), res.get('wall_s'), res.get('unknown')), file=sys.stderr)
    for res in common.run_units(unit_fn, common.shuffle_units(units), (lambda u: u.get('timeout', 200) * 2 + 100), progress, deadline):
        rep.add_unit(res)
    return rep.finish()
