# C05: check-digit generators and validators agree (DESIGN.md section 5, C05)
# The position of the check character(s) relative to the generator's argument is derived per module from the doctest corpus
# (a small family of layouts is tried; the one consistent with every doctest-valid number is used; none => module not covered).
#  (i)   for a symbolic valid number v:  gen(payload(v)) == check(v)
#  (ii)  changing one check character of a valid number to another character of the check alphabet makes it invalid
#  (iii) for a symbolic payload p over the payload alphabet: validate(assemble(p, gen(p))) does not raise InvalidChecksum
import importlib
import json
import sys
import time

import z3

from symx import engine as E
from . import common, c17
from .relfam import Call, X, R, run_relation_unit, main_generic, veq

ASSUMPTIONS = [
    'generators considered: calc_check_digit / calc_check_digits (other calc_* helpers are not covered)',
    'layout (which slice of the canonical number is the generator argument and which the check characters) is inferred from the doctest-valid numbers among: tail 1/2, head 1/2, whole-number argument with tail 1/2; modules where none fits are listed under bounds.uncovered',
    'check alphabet = ASCII digits, plus X / upper-case letters when the doctest corpus shows such check characters; payload alphabet likewise from the corpus',
    '(iii) only applies when the generator returns exactly the expected number of check characters (some generators return a longer marker such as \'10\' for payloads without a valid check digit)',
    '(ii) is run as a paired symbolic run with solver-proven lemmas (as C17); (i)/(iii) as relation scripts; bounded lengths / caps',
]

LAYOUTS = [
    ('tail1', lambda v: (v[:-1], v[-1:])), ('tail2', lambda v: (v[:-2], v[-2:])),
    ('head1', lambda v: (v[1:], v[:1])), ('head2', lambda v: (v[2:], v[:2])),
    ('full-tail1', lambda v: (v, v[-1:])), ('full-tail2', lambda v: (v, v[-2:])),
]
for _a in (1, 2, 3, 4):
    LAYOUTS.append(('skip%d-tail1' % _a, lambda v, a=_a: (v[a:-1], v[-1:])))
    LAYOUTS.append(('skip%d-tail2' % _a, lambda v, a=_a: (v[a:-2], v[-2:])))
SLICES = {'tail1': ((0, -1), (-1, 0)), 'tail2': ((0, -2), (-2, 0)), 'head1': ((1, 0), (0, 1)), 'head2': ((2, 0), (0, 2)),
          'full-tail1': (None, (-1, 0)), 'full-tail2': (None, (-2, 0))}
for _a in (1, 2, 3, 4):
    SLICES['skip%d-tail1' % _a] = ((_a, -1), (-1, 0))
    SLICES['skip%d-tail2' % _a] = ((_a, -2), (-2, 0))


def synth_unit(unit):
    """synthesise up to 8 distinct valid compact numbers of a module with the engine (accepting paths of validate on a symbolic
    string over 0-9A-Z), confirmed by the real validate(); they only enlarge the corpus used for layout inference"""
    import importlib as _il
    m, L = unit['module'], unit['L']
    E.install(common.REPO)
    E.CONFIG['K'] = 0
    E.CONFIG['query_timeout_ms'] = 4000
    mod = _il.import_module(m)
    VE = sys.modules['stdnum.exceptions'].ValidationError
    from symx.replay import Replayer, step as _step
    rp = Replayer(common.REPO)
    found = []

    def body():
        x, chars = E.symstr(L, 's', 48, 90)
        try:
            return x, mod.validate(x)
        except VE:
            raise E.Assume('rejected')
    try:
        for st, out in E.explore(body, max_paths=400, timeout=unit['timeout']):
            if st is None:
                break
            if out[0] != 'ret':
                continue
            x = out[1][0]
            for _ in range(3):
                mdl = st.witness_model()
                if mdl is None:
                    break
                xs = E.model_str(mdl, x)
                r = rp.run([_step(m, 'validate', xs)])[0]
                if r['kind'] == 'ret' and isinstance(r.get('value'), str) and r['value'] not in found:
                    found.append(r['value'])
                st.add(z3.Not(x._eqz(xs)))
                st.model = None
            if len(found) >= 8:
                break
    finally:
        rp.close()
    return {'unit': unit, 'found': found}


def infer_layouts():
    """module -> (generator name, layout name, payload alphabet, check alphabet, payload lengths); done on the real code
    through the replay worker (concrete calls only)"""
    from symx.replay import Replayer, step
    intro = common.introspect()
    rp = Replayer(common.REPO)
    out, uncovered = {}, {}
    from .vfamily import GENERIC
    for m, info in sorted(intro.items()):
        gens = [g for g in ('calc_check_digit', 'calc_check_digits') if g in info['functions'] and len(info['functions'][g]['params'] or []) >= 1
                and all(p[1] is not None for p in info['functions'][g]['params'][1:])]
        if not gens:
            continue
        vals = sorted(set(v for r, v in info['valid']) | set(_SYNTH.get(m, [])))
        if not vals:
            continue
        found = None
        for g in gens:
            for name, f in LAYOUTS:
                if name.endswith('2') != (g == 'calc_check_digits') and not (g == 'calc_check_digit' and name.endswith('1')):
                    continue
                ok = len(vals) >= (4 if name.startswith('skip') else 2)     # guard against coincidental fits on a tiny corpus
                for v in vals:
                    p, c = f(v)
                    if not p or not c:
                        ok = False
                        break
                    r = rp.run([step(m, g, p)])[0]
                    if r['kind'] != 'ret' or r.get('value') != c:
                        ok = False
                        break
                if ok:
                    found = (g, name)
                    break
            if found:
                break
        if not found:
            uncovered[m] = 'no candidate layout is consistent with the %d doctest-valid numbers (at least 2, for prefix-skipping layouts 4, are required)' % len(vals)
            continue
        g, name = found
        f = dict(LAYOUTS)[name]
        pchars = set(ch for v in vals for ch in f(v)[0])
        cchars = set(ch for v in vals for ch in f(v)[1])
        palpha = '0123456789' + ('ABCDEFGHIJKLMNOPQRSTUVWXYZ' if any(ch.isalpha() for ch in pchars) else '')
        calpha = '0123456789' + ('ABCDEFGHIJKLMNOPQRSTUVWXYZ' if any(ch.isalpha() and ch != 'X' for ch in cchars) else ('X' if 'X' in cchars else ''))
        out[m] = {'gen': g, 'layout': name, 'palpha': palpha, 'calpha': calpha, 'lengths': sorted(set(len(v) for v in vals))}
        if name.startswith('skip'):
            a = int(name[4])
            pres = set(v[:a] for v in vals)
            out[m]['prefix'] = pres.pop() if len(pres) == 1 else None
    rp.close()
    return out, uncovered


# module -> {payload length: (start, stop) of an embedded number that validate() checks separately}
NESTED = {'stdnum.pl.regon': {13: (0, 9)}}


def script(unit):
    m, lay = unit['module'], unit['lay']
    g, name = lay['gen'], lay['layout']
    ps, cs = SLICES[name]
    if unit['kind'] == 'gen-matches':
        parg = R(0) if ps is None else ('slice', 0, ps[0], ps[1])
        calls = [Call(m, 'validate', [X()]), Call(m, g, [parg], requires=[0])]

        def ob(outs):
            if outs[0].kind != 'ret':
                return None
            if outs[1].kind != 'ret':
                return False
            v = E.force(outs[0].value)
            chk = v[cs[0] or None:cs[1] or None]
            return veq(outs[1].value, chk)
        return calls, [('%s:differs-from-check-in-valid-number' % g, ob)], (lambda outs: outs[0].kind == 'ret')
    if unit['kind'] == 'complete':
        if name.startswith('tail'):
            asm = ('cat', X(), R(0))
        elif name.startswith('skip') and lay.get('prefix'):
            asm = ('cat', lay['prefix'], X(), R(0))
        elif name.startswith('head'):
            asm = ('cat', R(0), X())
        else:
            return [], [], None
        calls = [Call(m, g, [X()]), Call(m, 'validate', [asm], requires=[0], label='validate(assembled)')]
        # numbers that embed another checked number: a payload is only well-formed if the embedded number is valid
        # (a 14-digit REGON starts with a complete 9-digit REGON that has its own check digit)
        nested = NESTED.get(m, {}).get(unit['L'])
        if nested:
            calls.append(Call(m, 'validate', [('xslice', nested[0], nested[1])], label='validate(embedded number)'))

        nck = 2 if name.endswith('2') else 1

        def ob(outs):
            if outs[0].kind != 'ret' or len(E.force(outs[0].value)) != nck:
                return None     # e.g. nz.ird / ch.uid return '10' for payloads that have no check digit at all
            if nested and outs[2].kind != 'ret':
                return None
            return not (outs[1].kind == 'verr' and outs[1].exc == 'InvalidChecksum')
        return calls, [('%s:completed-payload-rejected-with-checksum-error' % g, ob)], (lambda outs: outs[0].kind == 'ret')
    raise ValueError(unit['kind'])


def unit_fn(unit):
    if unit['kind'] == 'check-subst':
        return c17.unit_fn(unit)
    return run_relation_unit(unit, script)


_LAY = []
_SYNTH = {}


def synthesize(tier):
    """phase 1: enlarge small corpora (fewer than 5 valid numbers) of modules that expose a generator"""
    intro = common.introspect()
    units = []
    from .vfamily import GENERIC
    for m, info in sorted(intro.items()):
        if m in GENERIC or not any(g in info['functions'] for g in ('calc_check_digit', 'calc_check_digits')):
            continue
        vals = sorted(set(v for r, v in info['valid']))
        if vals and len(vals) < 5:
            for L in sorted(set(len(v) for v in vals))[:2]:
                units.append({'module': m, 'L': L, 'timeout': 20 if tier == 'quick' else 120})
    for res in common.run_units(synth_unit, units, 200):
        if res.get('found'):
            _SYNTH.setdefault(res['unit']['module'], []).extend(res['found'])


def make_units(tier, only):
    if not _LAY:
        _LAY.append(infer_layouts())
    layouts, uncovered = _LAY[0]
    from .vfamily import GENERIC
    units = []
    for m, lay in sorted(layouts.items()):
        if only and m not in only:
            continue
        Ls = lay['lengths'] if tier != 'quick' else lay['lengths'][:1]
        ncheck = 2 if lay['layout'].endswith('2') else 1
        for L in Ls:
            base = {'module': m, 'lay': lay, 'options': {'layout': lay['layout'], 'gen': lay['gen']}, 'K': 0}
            caps = dict(max_paths=800, timeout=30, query_timeout_ms=6000) if tier == 'quick' else dict(max_paths=20000, timeout=400, query_timeout_ms=60000)
            lo_hi = (48, 57) if lay['palpha'] == '0123456789' and lay['calpha'] == '0123456789' else (48, 90)
            units.append(dict(base, kind='gen-matches', L=L, charset=(48, 90), **caps))
            skip = int(lay['layout'][4]) if lay['layout'].startswith('skip') else 0
            if not lay['layout'].startswith('full') and (not skip or lay.get('prefix')):
                units.append(dict(base, kind='complete', L=L - ncheck - skip, charset=(48, 57) if lay['palpha'] == '0123456789' else (48, 90), **caps))
            # (ii) positions of the check characters in the canonical number
            pos = list(range(L - ncheck, L)) if 'tail' in lay['layout'] else list(range(0, ncheck))
            if m in GENERIC:
                continue      # substitutions in the generic algorithm modules are C06's subject (alphabet-specific kinds)
            units.append(dict(base, kind='check-subst', prefix='', L=L, positions=pos, subst_alphabet=lay['calpha'], options={},
                              max_paths=200 if tier == 'quick' else 3000, timeout=40 if tier == 'quick' else 600, query_timeout_ms=caps['query_timeout_ms']))
    return units


def main(args):
    synthesize(args.tier)
    _LAY.append(infer_layouts())
    layouts, uncovered = _LAY[0]
    return main_generic('C05', args, make_units, unit_fn, ASSUMPTIONS,
                        bounds={'layouts': {m: [l['gen'], l['layout'], l['calpha']] for m, l in layouts.items()}, 'uncovered': uncovered,
                                'synthesised_valid_numbers': {m: len(v) for m, v in _SYNTH.items()}})
