# C18: the online check application answers every query safely (DESIGN.md section 5, C18)
# The real online_check/stdnum.wsgi is loaded through the engine's transform and application() is executed on a symbolic
# `number` parameter, one number module at a time.
import importlib
import json
import os
import sys
import time
import types

import z3

from symx import engine as E
from symx.replay import step
from . import common
from .symrun import UnitResult

PROBE = os.path.join(common.VERIF, 'harness', 'wsgi_probe.py')

ASSUMPTIONS = [
    'stubs: urllib.parse.parse_qs returns the number parameter absent / once (a symbolic string) / twice; percent-decoding itself is not executed (its contract: the decoded text has no lone surrogates)',
    'stubs: json.dumps checks that the result tree is JSON-serialisable (str/int/float/bool/None leaves, str keys) and passes it through; html.escape is modelled (& < > " \' replaced, each replacement is an exotic event of budget K)',
    'get_number_modules() is replaced by a one-module list: the application handles modules independently (list comprehension), all 234 are explored one at a time',
    'HTML safety obligation: every character of the response body that is still symbolic (i.e. originates from the submitted text) is provably none of & < > " \'',
    'the page template is the real online_check/template.html; the WSGI server itself is not modelled',
    'besides fully symbolic numbers of the corpus lengths, neighbourhoods of doctest-valid presentations are explored: two seed-chosen positions fully symbolic, the rest concrete',
]


def load_app():
    E.install(common.REPO)
    path = os.path.join(common.REPO, 'online_check', 'stdnum.wsgi')
    out = sys.stdout
    m = E.load_file('stdnum_wsgi_sym', path)
    sys.stdout = out
    return m


def unit_fn(unit):
    modname, L, ajax, shape, K = unit['module'], unit['L'], unit['ajax'], unit['shape'], unit['K']
    E.CONFIG['K'] = K
    E.CONFIG['query_timeout_ms'] = unit.get('query_timeout_ms', 6000)
    app = load_app()
    mod = importlib.import_module(modname)
    VE = sys.modules['stdnum.exceptions'].ValidationError
    ur = UnitResult(unit)
    app.get_number_modules = lambda: [mod]
    environ = {'DOCUMENT_ROOT': os.path.join(common.REPO, 'online_check'), 'SCRIPT_NAME': '/stdnum.wsgi', 'QUERY_STRING': 'stubbed'}
    if ajax:
        environ['HTTP_X_REQUESTED_WITH'] = 'XMLHttpRequest'

    lit = unit.get('literal')

    def body():
        if lit is not None:
            # neighbourhood of a doctest-valid presentation: the listed positions are symbolic, the rest concrete
            s0, chars = E.symstr(len(unit['positions']))
            cs = [ord(ch) for ch in lit]
            for p, c in zip(unit['positions'], chars):
                cs[p] = c
            x = E.SStr(cs)
        else:
            x, chars = E.symstr(L)
        for c in chars:
            E.assume(z3.Or(c < 0xd800, c > 0xdfff))      # contract of parse_qs: no lone surrogates
        params = {} if shape == 'absent' else ({'number': [x]} if shape == 'one' else {'number': [x, 'second-value']})
        app.urllib = types.SimpleNamespace(parse=types.SimpleNamespace(parse_qs=lambda qs, *a, **k: params))
        app._template = None if unit.get('cold', True) else app._template
        calls = []
        try:
            valid = mod.is_valid(x) if shape != 'absent' else False
        except Exception as e:
            valid = ('exc', type(e).__name__)
        try:
            res = app.application(dict(environ), lambda status, headers: calls.append((status, headers)))
            out = ('ret', res)
        except Exception as e:
            import traceback
            out = ('exc', type(e).__name__, ''.join(traceback.format_exception(e)[-2:])[-300:])
        return x, valid, calls, out
    for st, out in E.explore(body, max_paths=unit['max_paths'], timeout=unit['timeout']):
        if st is None:
            ur.limit(out)
            break
        ur.path(st, out)
        if out[0] != 'ret':
            continue
        x, valid, calls, res = out[1]
        model = st.witness_model()
        if model is None:
            if getattr(st, 'last_status', '') == 'unknown':
                ur.res['unknown'] += 1
            ur.outcome('no-witness')
            continue
        xs = E.model_str(model, x)
        numbers = [] if shape == 'absent' else ([xs] if shape == 'one' else [xs, 'second-value'])
        today = ur.today_of(st, model)
        steps = [{'mod': 'wsgi_probe', 'file': PROBE, 'func': 'request', 'args': [common.REPO, numbers, ajax, modname], 'kwargs': {}}]
        if shape != 'absent':
            steps.append(step(modname, 'is_valid', xs))
        real = ur.replay(steps, today)
        if real is None:
            continue
        r0 = real[0]
        if shape != 'absent' and isinstance(valid, (bool, E.SBool)):
            # the module's own verdict on the real code must be the one of the symbolic path (engine validation)
            v_sym = valid if isinstance(valid, bool) else z3.is_true(model.eval(valid.z, model_completion=True))
            r1 = real[1]
            if r1['kind'] != 'ret' or r1.get('value') is not v_sym:
                ur.divergence({'input': xs, 'symbolic': 'is_valid=%r' % v_sym, 'real': {k: r1.get(k) for k in ('kind', 'type', 'value', 'msg')}})
                continue
        base = {'module': 'online_check.stdnum_wsgi', 'func': 'application', 'options': json.dumps({'format_module': modname, 'ajax': ajax, 'number': shape}, sort_keys=True),
                'witness': xs, 'today': today.isoformat() if today else None, 'steps': steps}
        # engine validation: crash / no crash must agree
        real_crash = r0['kind'] != 'ret'
        sym_crash = res[0] == 'exc'
        if real_crash != sym_crash:
            ur.divergence({'input': xs, 'symbolic': res[:2] if sym_crash else 'ok', 'real': {k: r0.get(k) for k in ('kind', 'type', 'msg', 'frame')}, 'tb': res[2] if sym_crash else None})
            continue
        ur.sample({'format_module': modname, 'number': xs, 'mode': 'json' if ajax else 'html', 'outcome': 'server error' if sym_crash else 'ok'})
        ur.res['obligations'] += 1
        if sym_crash:
            ur.violation(dict(base, kind='server-error', exc_type=r0.get('type'), frame=r0.get('frame'), detail='application raised %s: %s' % (r0.get('type'), (r0.get('msg') or '')[:100])))
            continue
        ur.res['discharged'] += 1
        from .relfam import _dec
        rv = _dec(r0)
        # status / single start_response
        ur.res['obligations'] += 1
        if len(calls) != 1 or calls[0][0] != '200 OK' or rv.get('status') != '200 OK' or rv.get('calls') != 1:
            ur.violation(dict(base, kind='status-not-200', detail='start_response calls: %r' % (calls,)))
            continue
        ur.res['discharged'] += 1
        payload = res[1][0]
        listed_sym = None
        if ajax:
            tree = payload.s.tree if isinstance(payload, E.EncodedStr) and isinstance(payload.s, E.JsonText) else None
            if tree is None:
                tree = json.loads(payload.decode('utf-8')) if isinstance(payload, bytes) else None
            if tree is not None:
                listed_sym = len(tree) > 0
        # listed exactly when is_valid accepts (checked on the real response as well)
        if shape != 'absent' and isinstance(valid, (bool, E.SBool)):
            ur.res['obligations'] += 1
            v_conc = valid if isinstance(valid, bool) else z3.is_true(model.eval(valid.z, model_completion=True))
            real_listed = (len(rv.get('json') or []) > 0) if ajax else ('<li>' in rv['body'].split('<ul', 1)[-1] if False else None)
            ok = True
            if ajax:
                ok = (real_listed == v_conc) and (listed_sym is None or listed_sym == v_conc)
            if not ok:
                ur.violation(dict(base, kind='listing-differs-from-is_valid', detail='is_valid=%r, listed=%r' % (v_conc, real_listed)))
                continue
            ur.res['discharged'] += 1
        # HTML: no symbolic character of the body may be a markup character
        if not ajax:
            text = payload.s if isinstance(payload, E.EncodedStr) else None
            if isinstance(text, E.SStr):
                syms = {}
                for c in text.chars:
                    if not isinstance(c, int):
                        syms[c.get_id()] = c
                if syms:
                    phi = z3.And([z3.And(c != 38, c != 60, c != 62, c != 34, c != 39) for c in syms.values()])
                    r, m2 = ur.obligation(st, phi)
                    if r == 'sat':
                        xs2 = E.model_str(m2, x)
                        steps2 = [{'mod': 'wsgi_probe', 'file': PROBE, 'func': 'request', 'args': [common.REPO, [xs2], ajax, modname], 'kwargs': {}}]
                        real2 = ur.replay(steps2, ur.today_of(st, m2))
                        if real2 and real2[0]['kind'] == 'ret':
                            body2 = _dec(real2[0])['body']
                            import html as _h
                            # the escaped page must not contain the raw text where it differs from its escaped form
                            raw_specials = [ch for ch in xs2 if ch in '<>&"\'']
                            leaked = _h.escape(xs2, True) != xs2 and _leaks(body2, xs2)
                            if leaked:
                                ur.violation(dict(base, witness=xs2, steps=steps2, kind='unescaped-input-in-page', detail='submitted text appears unescaped in the page'))
                            else:
                                ur.divergence({'input': xs2, 'symbolic': 'unescaped character in body', 'real': body2[-300:]})
                else:
                    ur.trivial_obligation()
    return ur.finish()


def _leaks(body, xs):
    """does the page contain a markup character that comes from the submitted text? compare with the page for the same request
    where every markup character of the input is replaced by a harmless one: the two pages must have the same markup skeleton"""
    import re
    specials = '<>&"\''
    # count raw markup characters that are not part of an entity / the template: every special character of xs that appears
    # in the body right next to its neighbours from xs is a leak
    for i, ch in enumerate(xs):
        if ch in specials:
            ctx = xs[max(0, i - 1):i + 2]
            if len(ctx) >= 2 and ctx in body:
                return True
            if len(xs) == 1 and body.count(ch) > 0:
                return True
    return False


def make_units(tier, only):
    intro = common.introspect()
    units = []
    mods = sorted(intro)
    for i, m in enumerate(mods):
        if only and m not in only:
            continue
        Ls = common.lengths_for(intro[m], tier)
        for L in Ls[:1] if tier == 'quick' else Ls:
            modes = [False] + ([True] if (tier != 'quick' or i % 4 == common.seed() % 4 or only) else [])
            for ajax in modes:
                u = {'module': m, 'L': L, 'ajax': ajax, 'shape': 'one', 'K': 1, 'options': {'ajax': ajax}}
                u.update(dict(max_paths=800, timeout=25, query_timeout_ms=5000) if tier == 'quick' else dict(max_paths=20000, timeout=400, query_timeout_ms=60000))
                units.append(u)
    for i, m in enumerate(mods):
        if only and m not in only:
            continue
        for L in common.short_lengths(intro[m], tier, m):
            u = {'module': m, 'L': L, 'ajax': bool((i + L) % 2), 'shape': 'one', 'K': 1, 'prio': 2, 'options': {'ajax': bool((i + L) % 2), 'short': True}}
            u.update(dict(max_paths=300, timeout=8, query_timeout_ms=4000) if tier == 'quick' else dict(max_paths=5000, timeout=60, query_timeout_ms=30000))
            units.append(u)
    import random
    rnd = random.Random(common.seed())
    for i, m in enumerate(mods):
        if only and m not in only:
            continue
        lits = [r for r, v in intro[m]['valid']]
        lits = rnd.sample(lits, min(len(lits), 3 if tier == 'quick' else 12))
        ext = [r for r, v in intro[m].get('valid_ext', [])]
        lits += rnd.sample(ext, min(len(ext), 3 if tier == 'quick' else 12))
        for lit in lits:
            if len(lit) < 2:
                continue
            for rep in range(1 if tier == 'quick' else 4):
                pos = sorted(rnd.sample(range(len(lit)), 2))
                u = {'module': m, 'L': len(lit), 'ajax': bool(rnd.getrandbits(1)), 'shape': 'one', 'K': 2, 'literal': lit, 'positions': pos,
                     'options': {'neighbourhood-of': lit, 'symbolic-positions': pos}}
                u.update(dict(max_paths=300, timeout=12, query_timeout_ms=5000) if tier == 'quick' else dict(max_paths=5000, timeout=120, query_timeout_ms=30000))
                units.append(u)
    if not only:
        for shape in ('absent', 'two'):
            for ajax in (False, True):
                units.append({'module': 'stdnum.isbn', 'L': 10, 'ajax': ajax, 'shape': shape, 'K': 1, 'options': {'ajax': ajax, 'shape': shape}, 'max_paths': 300, 'timeout': 25})
        units.append({'module': 'stdnum.isbn', 'L': 10, 'ajax': False, 'shape': 'one', 'K': 1, 'cold': False, 'options': {'template': 'cached'}, 'max_paths': 300, 'timeout': 25})
    return units


def main(args):
    from .relfam import main_generic
    return main_generic('C18', args, make_units, unit_fn, ASSUMPTIONS)
