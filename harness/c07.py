# C07: international identifiers agree with an independent reading of their standard (DESIGN.md section 5, C07)
# validate() of the real module and the transcription in spec/ref_validators.py are run on the same symbolic input
# (a string over the characters '0'..'Z', which contains the format alphabets plus seven hostile punctuation characters);
# obligation: same accept/reject and same canonical string.
import os

from symx import engine as E
from . import common
from .relfam import Call, X, R, run_relation_unit, main_generic, veq

REF = os.path.join(common.VERIF, 'spec', 'ref_validators.py')

ASSUMPTIONS = [
    'inputs are strings over the 43 characters 0-9 : ; < = > ? @ A-Z in compact presentation (no separators, upper case); presentation handling (separators, case, look-alikes) is the subject of C03/C14, not of this check',
    'the reference transcriptions are in spec/ref_validators.py; they read the same shipped tables (ISO 3166 lists of isin/isrc, iban.dat) with their own parser',
    'iso11649 treats the colon as a separator (documented presentation character): it is excluded from that module\'s input alphabet; IBAN is compared with check_country=False',
    'Bitcoin: only native SegWit (Bech32, BIP-173) addresses, i.e. candidates starting with BC1; Base58Check addresses need SHA-256, which the engine cannot execute symbolically (see DESIGN.md). Bech32 path conditions mix integer characters with bit vectors: they are decided through the pure bit-vector translation of symx/bvroute.py',
    'IBAN: one unit per registered country (country code concrete, the rest symbolic) at the registered length and at length +-1; quick tier: a seed-rotated subset of countries',
]

# module -> (reference function, lengths quick, lengths thorough, concrete prefix or None)
SCOPE = {
    'stdnum.isbn': ('isbn', [9, 10, 13], range(8, 15), None),
    'stdnum.ean': ('ean', [8, 13], range(7, 16), None),
    'stdnum.issn': ('issn', [8], range(7, 10), None),
    'stdnum.ismn': ('ismn', [10, 13], range(9, 15), None),
    'stdnum.isin': ('isin', [12], range(11, 14), None),
    'stdnum.imei': ('imei', [14, 15, 16], range(13, 18), None),
    'stdnum.iso11649': ('iso11649', [5, 9], range(4, 27), 'RF'),
    'stdnum.isni': ('isni', [16], range(15, 18), None),
    'stdnum.lei': ('lei', [20], range(18, 23), None),
    'stdnum.grid': ('grid', [18], range(17, 20), None),
    'stdnum.cusip': ('cusip', [9], range(8, 11), None),
    'stdnum.gb.sedol': ('sedol', [7], range(6, 9), None),
    'stdnum.figi': ('figi', [12], range(11, 14), None),
    'stdnum.imo': ('imo', [7], range(6, 9), None),
    'stdnum.casrn': ('casrn', [7, 9], range(6, 14), None),
    'stdnum.bic': ('bic', [8, 11], range(7, 13), None),
    'stdnum.isrc': ('isrc', [12], range(11, 14), None),
    # native SegWit (Bech32, BIP-173) addresses only: 'BC1' + symbolic data part; P2WPKH is 42, P2WSH 62 characters long
    'stdnum.bitcoin': ('bitcoin_bech32', [42], [14, 41, 42, 43, 62], 'BC1'),
}


def script(unit):
    m, fn = unit['module'], unit['ref']
    E.load_file('ref_validators', REF) if 'ref_validators' not in E.EXTRA_FILES else None
    # IBAN: the published rules are the generic ones (ISO 13616 + registry structures); national account-number checks of
    # BE/ES/ME/NO are the subject of C09
    calls = [Call(m, 'validate', [X()], {'check_country': False} if m == 'stdnum.iban' else None), Call('ref_validators', fn, [X()], label='reference.' + fn)]
    calls[1].file = REF

    def ob(outs):
        a, b = outs[0], outs[1]
        if a.kind == 'ret' and b.kind == 'ret':
            return veq(a.value, b.value)
        return (a.kind != 'ret') and (b.kind != 'ret')
    return calls, [('validate:differs-from-the-standard', ob)], None


def unit_fn(unit):
    return run_relation_unit(unit, script)


def make_units(tier, only):
    import random
    units = []
    caps = dict(max_paths=1500, timeout=60, query_timeout_ms=8000, K=1) if tier == 'quick' else dict(max_paths=40000, timeout=900, query_timeout_ms=60000, K=2)
    for m, (fn, lq, lt, prefix) in sorted(SCOPE.items()):
        if only and m not in only:
            continue
        for L in (lq if tier == 'quick' else lt):
            units.append(dict(module=m, ref=fn, L=L, options={}, charset=(45, 90) if m == 'stdnum.casrn' else (48, 90), prefix=prefix, exclude=':' if m == 'stdnum.iso11649' else '', **caps))
    if not only or 'stdnum.iban' in only:
        from spec import numdb_ref
        tree = numdb_ref.parse_file(open(os.path.join(common.REPO, 'stdnum', 'iban.dat'), encoding='utf-8').read())
        import re
        table = dict((e[1], (4 + sum(int(n) for n in re.findall(r'(\d+)!', e[3]['bban'])), e[3]['bban'])) for e in tree if 'bban' in e[3])
        ccs = sorted(table)
        if tier == 'quick':
            ccs = random.Random(common.seed()).sample(ccs, 10)
        for cc in ccs:
            length = table[cc][0]
            for L in ([length] if tier == 'quick' else [length - 1, length, length + 1]):
                units.append(dict(module='stdnum.iban', ref='iban', L=L, options={'cc': cc}, charset=(48, 90), prefix=cc, **caps))
        units.append(dict(module='stdnum.iban', ref='iban', L=15, options={'cc': 'symbolic'}, charset=(48, 90), prefix=None, **caps))
    return units


def main(args):
    return main_generic('C07', args, make_units, unit_fn, ASSUMPTIONS, bounds={'scope': {m: [v[0], list(v[1]), list(v[2])] for m, v in SCOPE.items()}, 'not_covered': ['stdnum.bitcoin Base58Check (P2PKH/P2SH) addresses']})
