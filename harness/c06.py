# C06: generic checksum algorithms (Luhn, Verhoeff, Damm, ISO 7064) give their promised guarantees (DESIGN.md 5, C06)
# All obligations run the real checksum / calc_check_digit(s) / validate functions symbolically on strings of a fixed
# length over the alphabet; error-detection queries are paired runs with cut points + proven injectivity lemmas.
import importlib
import json
import sys
import time

import z3

from symx import engine as E
from symx import pairs
from symx.replay import step
from . import common
from .symrun import UnitResult

D10 = '0123456789'
A36 = '0123456789ABCDEFGHIJKLMNOPQRSTUVWXYZ'

# algorithm -> list of configurations: (label, validate/calc kwargs, payload alphabet, check alphabet, n check chars,
#                                        kinds = list of character classes for "same kind" substitutions, transposition claim)
def configs(tier):
    c = []
    c.append(('stdnum.luhn', 'decimal', {}, D10, D10, 1, [D10], 'luhn'))
    for n in ([16] if tier == 'quick' else [2, 4, 6, 8, 12, 16, 20, 26, 36, 40]):
        alpha = ''.join(chr(48 + i) if i < 10 else chr(55 + i) if i < 36 else chr(61 + i) for i in range(n))
        c.append(('stdnum.luhn', 'mod%d' % n, {'alphabet': alpha}, alpha, alpha, 1, [alpha], 'luhn'))
    c.append(('stdnum.verhoeff', 'decimal', {}, D10, D10, 1, [D10], 'all'))
    c.append(('stdnum.damm', 'decimal', {}, D10, D10, 1, [D10], 'all'))
    c.append(('stdnum.iso7064.mod_11_2', '0-9X', {}, D10, D10 + 'X', 1, [D10], 'all'))
    c.append(('stdnum.iso7064.mod_37_2', '0-9A-Z*', {}, A36, A36 + '*', 1, [D10, A36[10:]], 'all'))
    c.append(('stdnum.iso7064.mod_37_2', '0-9X', {'alphabet': D10 + 'X'}, D10, D10 + 'X', 1, [D10], 'all'))
    c.append(('stdnum.iso7064.mod_11_10', 'decimal', {}, D10, D10, 1, [D10], None))
    c.append(('stdnum.iso7064.mod_37_36', '0-9A-Z', {}, A36, A36, 1, [D10, A36[10:]], None))
    c.append(('stdnum.iso7064.mod_37_36', 'decimal', {'alphabet': D10}, D10, D10, 1, [D10], None))
    c.append(('stdnum.iso7064.mod_97_10', 'digits', {}, D10, D10, 2, [D10], 'all'))
    c.append(('stdnum.iso7064.mod_97_10', 'alnum', {}, A36, D10, 2, [D10, A36[10:]], None))
    return c


ASSUMPTIONS = [
    'strings of the explored lengths only (the claim is the bounded one; see bounds)',
    'payload characters range over the stated alphabet; "same kind" = same character class of that alphabet (digit / letter)',
    'lemma instances added to a query are each proven valid by a separate solver query over ranges asserted on the path (symx/pairs.py)',
    'engine models of str.index / int / tuple indexing / divmod (symx/engine.py), validated per path by replaying witnesses on the untransformed code',
]


def _calc(mod, w, kw):
    if hasattr(mod, 'calc_check_digits'):
        return mod.calc_check_digits(w, **kw)
    return mod.calc_check_digit(w, **kw)


def _valid(mod, VE, u, kw):
    """True / False / ('exc', e) for validate(u)"""
    try:
        mod.validate(u, **kw)
        return True
    except VE:
        return False


def unit_fn(unit):
    modname, label, kw, palpha, calpha, ncheck, kinds, transp = unit['cfg']
    n, kind = unit['n'], unit['kind']
    E.install(common.REPO)
    E.CONFIG['K'] = 0
    E.CONFIG['cutpoints'] = True
    E.CONFIG['cut_hard'] = True
    E.CONFIG['query_timeout_ms'] = unit.get('query_timeout_ms', 20000)
    mod = importlib.import_module(modname)
    VE = sys.modules['stdnum.exceptions'].ValidationError
    ur = UnitResult(unit, max_samples=2)
    base = {'module': modname, 'func': kind, 'options': json.dumps(kw, sort_keys=True) if kw else ''}

    def check_paths(body, expect, describe, confirm):
        """explore body(); on every completed path the returned z3 Bool/bool `bad` must be unsatisfiable"""
        for st, out in E.explore(body, max_paths=unit['max_paths'], timeout=unit['timeout']):
            if st is None:
                ur.limit(out)
                break
            ur.path(st, out)
            if out[0] == 'exc':
                # an exception other than ValidationError escaped validate()/calc on alphabet input
                m = st.witness_model()
                if m is not None:
                    ur.res['harness_errors'].append('%s: %r escaped on %s' % (modname, out[1], describe(m, None)))
                continue
            if out[0] != 'ret':
                continue
            vals, good = out[1]
            res, m2 = ur.obligation(st, good)
            if res == 'sat':
                confirm(m2, vals)
            elif res == 'unsat' and len(ur.res['samples']) < 2:
                m = st.witness_model()
                if m is not None:
                    ur.sample({'algorithm': modname, 'alphabet': label, 'n': n, 'obligation': kind, 'witness': describe(m, vals)})

    if kind == 'append':
        # (1) validate(w + calc(w)) returns, for every payload w
        def body():
            w, wc = E.symstr_alpha(n, palpha, 'w')
            d = _calc(mod, w, kw)
            ok = _valid(mod, VE, w + d, kw)
            return (w, d), ok

        def confirm(m2, vals):
            ws = E.model_str(m2, vals[0])
            fn = 'calc_check_digits' if hasattr(mod, 'calc_check_digits') else 'calc_check_digit'
            real = ur.replay([step(modname, fn, ws, **kw), step(modname, 'is_valid', ws + '', **kw)])
            if real is None:
                return
            d = real[0].get('value')
            real2 = ur.replay([step(modname, 'is_valid', ws + str(d), **kw)])
            if real[0]['kind'] != 'ret' or real2[0].get('value') is not True:
                ur.violation(dict(base, kind='generated-check-rejected', witness=ws, detail='calc(%r) = %r, is_valid(%r) = %r' % (ws, d, ws + str(d), real2[0].get('value', real2[0].get('type'))),
                                  steps=[step(modname, fn, ws, **kw), step(modname, 'is_valid', ws + str(d), **kw)]))
            else:
                ur.divergence({'input': ws, 'symbolic': 'generated check rejected', 'real': real2})
        check_paths(body, None, lambda m, v: E.model_str(m, v[0]) + '|' + str(E.model_val(m, v[1])) if v else '', confirm)

    elif kind == 'unique':
        # (2) single-character schemes: no other check character is accepted
        def body():
            w, wc = E.symstr_alpha(n, palpha, 'w')
            d = E.SStr.of(_calc(mod, w, kw))
            c = E.symchar_in('c', calpha)
            E.assume(c != (d.chars[0] if not isinstance(d.chars[0], int) else z3.IntVal(d.chars[0])))
            ok = _valid(mod, VE, w + E.SStr([c]), kw)
            return (w, d, c), z3.Not(E.zbool(ok))

        def confirm(m2, vals):
            ws, cs = E.model_str(m2, vals[0]), chr(m2.eval(vals[2], model_completion=True).as_long())
            real = ur.replay([step(modname, 'calc_check_digit', ws, **kw), step(modname, 'is_valid', ws + cs, **kw)])
            if real is None:
                return
            if real[1].get('value') is True and real[0].get('value') != cs:
                ur.violation(dict(base, kind='second-check-character-accepted', witness=ws + cs,
                                  detail='calc(%r) = %r but %r is valid too' % (ws, real[0].get('value'), ws + cs),
                                  steps=[step(modname, 'calc_check_digit', ws, **kw), step(modname, 'is_valid', ws + cs, **kw)]))
            else:
                ur.divergence({'input': ws + cs, 'symbolic': 'second check character accepted', 'real': real})
        check_paths(body, None, lambda m, v: E.model_str(m, v[0]) + '|' + E.model_str(m, v[1]) if v else '', confirm)

    elif kind in ('subst', 'transp', 'luhn-transp-exact'):
        total = n + ncheck
        positions = range(total) if kind == 'subst' else range(total - 1)
        window = unit.get('window')
        if window:
            # long strings: every payload position outside the window [i, i+1] is a concrete seed-chosen character of the
            # alphabet; the window and the check characters stay symbolic (so the first string can still be made valid)
            import random
            rnd = random.Random(common.seed() * 1009 + n)
            filler = [ord(rnd.choice(palpha)) for _ in range(n)]
            positions = [i for i in positions if i < n - 1] if kind != 'subst' else [i for i in positions if i < n]
            c0, cn = unit.get('chunk', (0, 1))
            positions = [i for i in positions if i % cn == c0]
        t_end = time.time() + unit['timeout']
        for i in positions:
            if window and time.time() > t_end:
                ur.res['limit'] = 'time: stopped before position %d of %d' % (i, len(positions))
                break

            def body(i=i):
                st = E.CUR
                u, uc = E.symstr_alpha(n, palpha, 'u')
                if window:
                    uc = [c if k in (i, i + 1) else filler[k] for k, c in enumerate(uc)]
                ck, cc = E.symstr_alpha(ncheck, calpha, 'q')
                chars = uc + cc
                i0 = len(st.cutrec)
                if not _valid(mod, VE, E.SStr(chars), kw):
                    raise E.Assume('first string not valid')
                i1 = len(st.cutrec)
                if kind == 'subst':
                    alpha_i = palpha if i < n else calpha
                    x = E.symchar_in('x', alpha_i)
                    E.assume(x != chars[i])
                    # same kind
                    same = []
                    for cls in kinds + ([c for c in calpha if not any(c in k for k in kinds)] if i >= n else []):
                        cps = [ord(a) for a in cls]
                        same.append(z3.And(z3.Or([chars[i] == p for p in cps]), z3.Or([x == p for p in cps])))
                    E.assume(z3.Or(same))
                    chars2 = chars[:i] + [x] + chars[i + 1:]
                else:
                    E.assume(chars[i] != chars[i + 1])
                    if kind == 'luhn-transp-exact' or transp == 'luhn':
                        first, last = ord(palpha[0]), ord(palpha[-1])
                        is09 = z3.Or(z3.And(chars[i] == first, chars[i + 1] == last), z3.And(chars[i] == last, chars[i + 1] == first))
                        E.assume(is09 if kind == 'luhn-transp-exact' else z3.Not(is09))
                    chars2 = chars[:i] + [chars[i + 1], chars[i]] + chars[i + 2:]
                ok2 = _valid(mod, VE, E.SStr(chars2), kw)
                i2 = len(st.cutrec)
                pairs.add_lemmas(st, st.cutrec[i0:i1], st.cutrec[i1:i2])
                if kind == 'luhn-transp-exact':
                    # the documented miss: swapping first/last symbol IS accepted (must be satisfiable -> checked below)
                    return (E.SStr(chars), E.SStr(chars2), i), E.zbool(ok2)
                return (E.SStr(chars), E.SStr(chars2), i), z3.Not(E.zbool(ok2))

            def confirm(m2, vals):
                a, b = E.model_str(m2, vals[0]), E.model_str(m2, vals[1])
                real = ur.replay([step(modname, 'is_valid', a, **kw), step(modname, 'is_valid', b, **kw)])
                if real is None:
                    return
                if kind == 'luhn-transp-exact':
                    if real[0].get('value') is True and real[1].get('value') is not True:
                        ur.violation(dict(base, kind='luhn-detects-the-documented-miss', witness=[a, b], detail='position %d' % vals[2],
                                          steps=[step(modname, 'is_valid', a, **kw), step(modname, 'is_valid', b, **kw)]))
                    else:
                        ur.divergence({'input': [a, b], 'symbolic': kind, 'real': real})
                    return
                if real[0].get('value') is True and real[1].get('value') is True:
                    ur.violation(dict(base, kind='undetected-' + ('substitution' if kind == 'subst' else 'transposition'), witness=[a, b],
                                      detail='both valid; position %d' % vals[2], frame='len=%d' % total,
                                      steps=[step(modname, 'is_valid', a, **kw), step(modname, 'is_valid', b, **kw)]))
                else:
                    ur.divergence({'input': [a, b], 'symbolic': kind + ' undetected', 'real': real})
            check_paths(body, None, lambda m, v: [E.model_str(m, v[0]), E.model_str(m, v[1])] if v else '', confirm)
    r = ur.finish()
    r['lemmas'] = dict(pairs.STATS)
    return r


def main(args):
    tier = args.tier
    lengths = [1, 2, 3, 5, 8, 12] if tier == 'quick' else list(range(1, 25))
    units = []
    for cfg in configs(tier):
        modname, label, kw, palpha, calpha, ncheck, kinds, transp = cfg
        if args.module and modname not in args.module:
            continue
        for n in lengths:
            if len(palpha) > 10 and n > (5 if tier == 'quick' else 16):
                continue
            if tier == 'quick' and n > 5 and modname in ('stdnum.iso7064.mod_11_10', 'stdnum.iso7064.mod_37_36', 'stdnum.iso7064.mod_37_2'):
                continue
            if label.startswith('mod') and n > 8:
                continue
            ks = ['append', 'subst']
            if ncheck == 1:
                ks.append('unique')
            if transp in ('all', 'luhn'):
                ks.append('transp')
            if transp == 'luhn' and label == 'decimal':
                ks.append('luhn-transp-exact')
            for k in ks:
                if modname == 'stdnum.verhoeff' and k in ('append', 'unique') and n > (5 if tier == 'quick' else 10):
                    continue      # no shared fold between calc and validate (positions shift): monolithic query, small n only
                u = {'cfg': list(cfg), 'n': n, 'kind': k, 'module': modname, 'L': n}
                u.update(dict(max_paths=200, timeout=40, query_timeout_ms=20000) if tier == 'quick' else dict(max_paths=2000, timeout=600, query_timeout_ms=120000))
                units.append(u)
    # long strings (weights / tables that repeat with a period): windowed substitution and transposition at every position
    for cfg in configs(tier):
        modname, label, kw, palpha, calpha, ncheck, kinds, transp = cfg
        if args.module and modname not in args.module:
            continue
        if label.startswith('mod') and label != 'mod16':
            continue
        for n in ([120] if tier == 'quick' else [120, 257]):
            for k in ['subst'] + (['transp'] if transp in ('all', 'luhn') else []):
                for c0 in range(4):
                    u = {'cfg': list(cfg), 'n': n, 'kind': k, 'module': modname, 'L': n, 'window': True, 'prio': 1, 'chunk': (c0, 4)}
                    u.update(dict(max_paths=20, timeout=60, query_timeout_ms=10000) if tier == 'quick' else dict(max_paths=50, timeout=600, query_timeout_ms=60000))
                    units.append(u)
    if getattr(args, 'units_only', False):
        return units
    if tier != 'quick':
        # thorough = the quick tier's units first (larger caps), then everything else while the budget lasts
        import copy
        qa = copy.copy(args)
        qa.tier, qa.units_only = 'quick', True
        units = common.plan_thorough(units, main(qa))
    rep = common.Report('C06', tier)
    rep.assumptions = ASSUMPTIONS
    rep.bounds = {'payload_lengths': lengths, 'alphabets': sorted(set(c[0] + ':' + c[1] for c in configs(tier))),
                  'outside': 'lengths beyond the bound; the unbounded claim of the property is NOT made (see DESIGN.md C06)'}
    deadline = time.time() + (common.QUICK_S if tier == 'quick' else common.THOROUGH_S)
    lem = {'proved': 0, 'failed': 0, 'cached': 0, 'instances': 0, 'time_s': 0.0, 'unknown': 0}

    def progress(done, total, res):
        if args.verbose:
            u = res['unit']
            print('[%d/%d] %s %s n=%s %s %s %s unknown=%s' % (done, total, u['module'], u['cfg'][1], u['n'], u['kind'], res.get('outcomes', res.get('error', res.get('skipped'))), res.get('wall_s'), res.get('unknown')), file=sys.stderr)
    for res in common.run_units(unit_fn, common.shuffle_units(units), (lambda u: 2 * u.get('timeout', 40) + 60), progress, deadline):
        for k in lem:
            lem[k] += res.get('lemmas', {}).get(k, 0)
        rep.add_unit(res)
    rep.extra['lemmas'] = lem
    return rep.finish()
