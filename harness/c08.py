# C08: conversions between formats preserve validity and identity (DESIGN.md section 5, C08)
# For a fully symbolic raw input x accepted by the source format: the converted value validates in the target format and
# embeds / converts back to the same identity.  A ValidationError raised by the conversion itself is a (documented) refusal.
from symx import engine as E
from . import common
from .relfam import Call, X, R, run_relation_unit, main_generic, veq, vand, vor, vimplies

ASSUMPTIONS = [
    'source inputs: fully symbolic raw strings of the explored lengths (so compact, space- and hyphen-separated presentations with up to K separators are covered)',
    'a ValidationError raised by the conversion or by its inverse is treated as a documented refusal (e.g. to_isbn10 of a 979 ISBN, de.stnr.to_country_number of a regional number valid in several regions); any other exception is a violation',
    'identity: the inverse conversion (where one exists) validates to the source\'s canonical number, else the source number is embedded at the documented slice',
    'engine models validated per path by witness replay on the untransformed code',
]


def _ret(o):
    return o.kind == 'ret'


def conv_ok(outs, k):
    """conversion k returned, or refused with a ValidationError"""
    return outs[k].kind in ('ret', 'verr', 'skip')


def ends(a, b):
    """string a ends with b (symbolic or concrete)"""
    a, b = E.force(a), E.force(b)
    if len(b) > len(a):
        return False
    return veq(a[len(a) - len(b):], b)


# each entry: name -> (source module, extra source validate kwargs, builder(m) -> (calls, obligations))
def entries():
    e = {}

    def simple(name, src, conv, tgt, inverse=None, embed=None, conv_kwargs=None, tgt_kwargs=None, src_kwargs=None, inv_mod=None, when=None):
        """validate_src(x); t = conv(x); tgt.validate(t) returns; inverse(t) validates (in src) to validate_src(x) / embed(v, vt)"""
        def build():
            calls = [Call(src, 'validate', [X()], src_kwargs), Call(src, conv, [X()], conv_kwargs, requires=[0], label=conv),
                     Call(tgt, 'validate', [R(1)], tgt_kwargs, label='%s.validate(converted)' % tgt.split('.')[-1])]
            obs = [('%s:raises-foreign-exception' % conv, lambda outs: None if not _ret(outs[0]) else conv_ok(outs, 1)),
                   ('%s:converted-number-invalid' % conv, lambda outs: None if not (_ret(outs[0]) and _ret(outs[1])) else _ret(outs[2]))]
            if inverse:
                calls.append(Call(inv_mod or tgt, inverse, [R(1)], label=inverse))
                calls.append(Call(src, 'validate', [R(3)], src_kwargs, label='%s.validate(inverse)' % src.split('.')[-1]))
                obs.append(('%s:inverse-does-not-return-the-source' % conv,
                            lambda outs: None if not (_ret(outs[0]) and _ret(outs[1])) or outs[3].kind == 'verr' else (outs[3].kind in ('ret',) and _ret(outs[4]) and veq(outs[4].value, outs[0].value))))
            if when:
                obs = [(n, (lambda outs, f=f: None if (_ret(outs[0]) and not when(outs[0].value)) else f(outs))) for n, f in obs]
            if embed:
                obs.append(('%s:source-not-embedded' % conv,
                            lambda outs: None if not (_ret(outs[0]) and _ret(outs[1]) and _ret(outs[2])) else embed(outs[0].value, outs[2].value)))
            return calls, obs
        e[name] = (src, build)

    # ISBN-10 <-> ISBN-13
    def isbn_build():
        m = 'stdnum.isbn'
        calls = [Call(m, 'validate', [X()]), Call(m, 'to_isbn13', [X()], requires=[0]), Call(m, 'validate', [R(1)], label='validate(to_isbn13)'),
                 Call(m, 'to_isbn10', [R(1)], label='to_isbn10(to_isbn13)'), Call(m, 'validate', [R(3)], label='validate(to_isbn10(to_isbn13))'),
                 Call(m, 'to_isbn10', [X()], requires=[0]), Call(m, 'validate', [R(5)], label='validate(to_isbn10)'),
                 Call(m, 'to_isbn13', [R(5)], label='to_isbn13(to_isbn10)'), Call(m, 'validate', [R(7)], label='validate(to_isbn13(to_isbn10))')]
        obs = [('to_isbn13:raises-foreign-exception', lambda o: None if not _ret(o[0]) else conv_ok(o, 1)),
               ('to_isbn10:raises-foreign-exception', lambda o: None if not _ret(o[0]) else conv_ok(o, 5)),
               ('to_isbn13:converted-number-invalid', lambda o: None if not (_ret(o[0]) and _ret(o[1])) else (_ret(o[2]) and len(o[2].value) == 13)),
               ('to_isbn10:converted-number-invalid', lambda o: None if not (_ret(o[0]) and _ret(o[5])) else (_ret(o[6]) and len(o[6].value) == 10)),
               # 10 -> 13 -> 10 returns the source
               ('to_isbn13:inverse-does-not-return-the-source', lambda o: None if not (_ret(o[0]) and _ret(o[1]) and len(o[0].value) == 10) else (_ret(o[3]) and _ret(o[4]) and veq(o[4].value, o[0].value))),
               ('to_isbn10:inverse-does-not-return-the-source', lambda o: None if not (_ret(o[0]) and _ret(o[5]) and len(o[0].value) == 13) else (_ret(o[7]) and _ret(o[8]) and veq(o[8].value, o[0].value)))]
        return calls, obs
    e['isbn10<->isbn13'] = ('stdnum.isbn', isbn_build)
    simple('ismn10->ismn13', 'stdnum.ismn', 'to_ismn13', 'stdnum.ismn', embed=lambda v, t: (len(t) == 13) and ends(t, v[1:] if len(v) == 10 else v[4:]))
    simple('issn->ean', 'stdnum.issn', 'to_ean', 'stdnum.ean', embed=lambda v, t: len(t) == 13 and vand([veq(t[:3], '977'), veq(t[3:10], v[:7])]))
    simple('issn->ean(issue 13)', 'stdnum.issn', 'to_ean', 'stdnum.ean', conv_kwargs={'issue_code': '13'},
           embed=lambda v, t: len(t) == 13 and vand([veq(t[:3], '977'), veq(t[3:10], v[:7]), veq(t[10:12], '13')]))
    for src, cc in (('stdnum.cusip', 'US'), ('stdnum.gb.sedol', 'GB'), ('stdnum.de.wkn', 'DE')):
        simple('%s->isin' % src.split('.')[-1], src, 'to_isin', 'stdnum.isin',
               embed=lambda v, t, cc=cc: len(t) == 12 and vand([veq(t[:2], cc), ends(t[:11], v)] + [veq(t[k:k + 1], '0') for k in range(2, 11 - len(v))]))
    simple('ccc<->iban', 'stdnum.es.ccc', 'to_iban', 'stdnum.es.iban', inverse='to_ccc')
    simple('kontonr<->iban', 'stdnum.no.kontonr', 'to_iban', 'stdnum.no.iban', inverse='to_kontonr')
    simple('iban->ccc', 'stdnum.es.iban', 'to_ccc', 'stdnum.es.ccc', inverse='to_iban')
    simple('iban->kontonr', 'stdnum.no.iban', 'to_kontonr', 'stdnum.no.kontonr', inverse='to_iban')
    simple('acn->abn', 'stdnum.au.acn', 'to_abn', 'stdnum.au.abn', embed=lambda v, t: len(t) == 11 and ends(t, v))
    simple('siret->siren', 'stdnum.fr.siret', 'to_siren', 'stdnum.fr.siren', embed=lambda v, t: len(t) == 9 and veq(v[:9], t))
    simple('siren->tva', 'stdnum.fr.siren', 'to_tva', 'stdnum.fr.tva', embed=lambda v, t: len(t) == 11 and ends(t, v))
    simple('siret->tva', 'stdnum.fr.siret', 'to_tva', 'stdnum.fr.tva', embed=lambda v, t: len(t) == 11 and veq(t[2:], v[:9]))
    simple('cui->ruc', 'stdnum.pe.cui', 'to_ruc', 'stdnum.pe.ruc', embed=lambda v, t: len(t) == 11 and veq(t[2:10], v[:8]))
    simple('gstin->pan', 'stdnum.in_.gstin', 'to_pan', 'stdnum.in_.pan', embed=lambda v, t: len(t) == 10 and veq(v[2:12], t))
    simple('aic10->aic32', 'stdnum.it.aic', 'to_base32', 'stdnum.it.aic', inverse='from_base32', when=lambda v: len(v) == 9)
    simple('aic32->aic10', 'stdnum.it.aic', 'from_base32', 'stdnum.it.aic', inverse='to_base32', when=lambda v: len(v) == 6)
    simple('ie.vat old->new', 'stdnum.ie.vat', 'convert', 'stdnum.ie.vat', embed=lambda v, t: len(t) in (8, 9))
    simple('imei14->15', 'stdnum.imei', 'format', 'stdnum.imei', conv_kwargs={'add_check_digit': True, 'separator': ''},
           embed=lambda v, t: (len(t) == 15 and veq(t[:len(v)], v)) if len(v) == 14 else veq(t, v))   # 15 / 16 digits: unchanged
    simple('isan+check', 'stdnum.isan', 'validate', 'stdnum.isan', conv_kwargs={'add_check_digits': True}, inverse='validate', inv_mod='stdnum.isan')
    simple('meid->dec', 'stdnum.meid', 'format', 'stdnum.meid', conv_kwargs={'format': 'dec', 'separator': ''}, inverse='format', inv_mod='stdnum.meid')
    simple('meid->hex', 'stdnum.meid', 'format', 'stdnum.meid', conv_kwargs={'format': 'hex', 'separator': ''}, inverse='format', inv_mod='stdnum.meid')
    simple('stnr regional->national', 'stdnum.de.stnr', 'to_country_number', 'stdnum.de.stnr', inverse='to_regional_number')
    simple('stnr national->regional', 'stdnum.de.stnr', 'to_regional_number', 'stdnum.de.stnr', inverse='to_country_number')
    return e


def script(unit):
    src, build = entries()[unit['entry']]
    calls, obs = build()
    if unit['entry'] in ('aic10->aic32', 'aic32->aic10') and unit['L'] != (9 if unit['entry'] == 'aic10->aic32' else 6):
        # to_base32() expects the 9-digit base-10 spelling and from_base32() the 6-character base-32 one; validate() accepts
        # both, so the conversion is only exercised on inputs of its own spelling (exact length, no separators)
        obs = [(n, (lambda o: None)) for n, f in obs]
    if unit['entry'] == 'isan+check':
        # inverse: strip the check digits again and compare the stripped forms
        calls[3] = Call('stdnum.isan', 'validate', [R(1)], {'strip_check_digits': True}, label='strip(add)')
        calls[4] = Call('stdnum.isan', 'validate', [R(0)], {'strip_check_digits': True}, label='strip(source)')
        obs[2] = ('validate:inverse-does-not-return-the-source', lambda o: None if not (_ret(o[0]) and _ret(o[1])) else (_ret(o[3]) and _ret(o[4]) and veq(o[3].value, o[4].value)))
    if unit['entry'].startswith('meid->'):
        back = 'hex' if unit['entry'].endswith('dec') else 'dec'
        calls[3] = Call('stdnum.meid', 'validate', [R(1)], label='validate(converted)2')
        calls[4] = Call('stdnum.meid', 'validate', [R(0)], label='validate(source)2')
        obs[2] = ('format:inverse-does-not-return-the-source', lambda o: None if not (_ret(o[0]) and _ret(o[1])) else (_ret(o[3]) and _ret(o[4]) and veq(o[3].value, o[4].value)))
    return calls, obs, (lambda outs: outs[0].kind == 'ret')


def unit_fn(unit):
    return run_relation_unit(unit, script)


def make_units(tier, only):
    intro = common.introspect()
    units = []
    for name, (src, build) in sorted(entries().items()):
        if only and src not in only:
            continue
        info = intro[src]
        raws = sorted(set(len(r) for r, v in info['valid']))
        comps = sorted(set(len(v) for r, v in info['valid']))
        if tier == 'quick':
            import collections
            Ls = sorted(set([collections.Counter(len(v) for r, v in info['valid']).most_common(1)[0][0], min(comps)]))
            deco = [len(r) for r, v in info['valid'] if len(r) > len(v)]
            if deco:
                Ls = sorted(set(Ls + [collections.Counter(deco).most_common(1)[0][0]]))
        else:
            Ls = list(range(max(1, min(raws + comps) - 1), max(raws + comps) + 2))
        for L in Ls:
            u = {'module': src, 'entry': name, 'options': {'conversion': name}, 'L': L, 'K': 1 if tier == 'quick' else 2}
            u.update(dict(max_paths=1500, timeout=40, query_timeout_ms=8000) if tier == 'quick' else dict(max_paths=30000, timeout=600, query_timeout_ms=60000))
            units.append(u)
    return units


def main(args):
    return main_generic('C08', args, make_units, unit_fn, ASSUMPTIONS, bounds={'conversions': sorted(entries())})
