# loaded by the pristine replay worker: GS1-128 round trip on a concrete mapping
import datetime
import decimal


def _val(v):
    if isinstance(v, dict):
        if '@decimal' in v:
            return decimal.Decimal(v['@decimal'])
        if '@datetime' in v:
            return datetime.datetime.fromisoformat(v['@datetime'])
        if '@tuple' in v:
            return tuple(_val(x) for x in v['@tuple'])
        if '@date' in v:
            return datetime.date.fromisoformat(v['@date'])
    return v


def roundtrip(items, separator, parentheses):
    from stdnum import gs1_128
    from stdnum.exceptions import ValidationError
    data = dict((k, _val(v)) for k, v in items)
    problems = []
    try:
        s = gs1_128.encode(data, separator, parentheses)
    except ValidationError as e:
        return {'problems': ['encode rejects the mapping: %s' % type(e).__name__]}
    try:
        back = gs1_128.info(s, separator)
        if back != data:
            problems.append('info(encode(m)) = %r differs from m = %r (encoded: %r)' % (back, data, s))
    except ValidationError as e:
        problems.append('info rejects encode output %r: %s' % (s, type(e).__name__))
        back = None
    try:
        v = gs1_128.validate(s, separator)
        try:
            if back is not None and gs1_128.info(v, separator) != back:
                problems.append('info(validate(s)) = %r differs from info(s) = %r' % (gs1_128.info(v, separator), back))
        except ValidationError as e:
            problems.append('info rejects the validated form %r' % (v,))
        try:
            if gs1_128.validate(v, separator) != v:
                problems.append('validate(%r) is not a fixed point: %r' % (v, gs1_128.validate(v, separator)))
        except ValidationError as e:
            problems.append('validate rejects its own output %r' % (v,))
    except ValidationError as e:
        problems.append('validate rejects encode output %r: %s' % (s, type(e).__name__))
    return {'problems': problems, 'encoded': s}
