# C12: derived attributes are total and consistent on valid numbers (DESIGN.md section 5, C12)
# On every accepting path of validate(x) every attribute getter of the module is run on the raw symbolic x.
import datetime

import z3

from symx import engine as E
from . import common
from .relfam import Call, X, R, run_relation_unit, main_generic, veq, vand, vor, concat

ASSUMPTIONS = [
    'getters are discovered by name (get_*, info, split, *_type) and called with the number as only argument',
    'the system date is an arbitrary valid date in 1970..2199; input lengths from the doctest corpus; K exotic events per input',
    'a symbolic datetime.date can only be constructed through the date model, whose invalid branch raises ValueError exactly like datetime.date',
    '"agrees with the digits of the number" is checked only through get_birth_year / get_birth_month and for the layouts in DATE_DIGITS',
    'engine models validated per path by witness replay on the untransformed code (frozen clock)',
]

SKIP = {'get_soap_client', 'get_cc_module', 'get_number_modules', 'get_module_name', 'get_module_description', 'get_label'}

# compact-number slices holding the two-digit year, month, day for formats with a plain fixed layout (no offsets):
# module -> (year slice, month slice, day slice, full-year slice or None)
DATE_DIGITS = {
    'stdnum.cn.ric': (None, (10, 12), (12, 14), (6, 10)),
    'stdnum.kr.rrn': ((0, 2), (2, 4), (4, 6), None),
    'stdnum.my.nric': ((0, 2), (2, 4), (4, 6), None),
    'stdnum.za.idnr': ((0, 2), (2, 4), (4, 6), None),
    'stdnum.lt.asmens': ((1, 3), (3, 5), (5, 7), None),
    'stdnum.ee.ik': ((1, 3), (3, 5), (5, 7), None),
    'stdnum.gr.amka': ((4, 6), (2, 4), (0, 2), None),
    'stdnum.dk.cpr': ((4, 6), (2, 4), (0, 2), None),
    'stdnum.si.emso': (None, (2, 4), (0, 2), None),
    'stdnum.mu.nid': ((5, 7), (3, 5), (1, 3), None),
    'stdnum.se.personnummer': {13: (None, (4, 6), None, (0, 4)), 11: ((0, 2), (2, 4), None, None)},
}


def getters(info):
    out = []
    for f, d in sorted(info['functions'].items()):
        if f in SKIP or f.startswith('check_') or f.startswith('to_') or f.startswith('calc_'):
            continue
        if not (f.startswith('get_') or f in ('info', 'split') or f.endswith('_type')):
            continue
        params = d.get('params') or []
        if len(params) < 1 or any(p[1] is None for p in params[1:]):
            continue
        out.append(f)
    return out


def script(unit):
    m, o = unit['module'], unit['options']
    gs = unit['getters']
    calls = [Call(m, 'validate', [X()], o)]
    idx = {}
    for g in gs:
        idx[g] = len(calls)
        calls.append(Call(m, g, [X()], requires=[0]))
    obs = []

    def total(k, g):
        def ob(outs):
            if outs[0].kind != 'ret':
                return None
            return outs[k].kind in ('ret', 'verr')
        return ('%s:raises-foreign-exception' % g, ob)
    for g in gs:
        obs.append(total(idx[g], g))
    if 'get_birth_date' in idx:
        k = idx['get_birth_date']

        def ob_kind(outs):
            if outs[0].kind != 'ret' or outs[k].kind != 'ret':
                return None
            v = outs[k].value
            return v is None or isinstance(v, (E.SDate, datetime.date))
        obs.append(('get_birth_date:not-a-date', ob_kind))
        for other, attr in (('get_birth_year', 'year'), ('get_birth_month', 'month')):
            if other in idx:
                j = idx[other]

                def ob_cons(outs, j=j, attr=attr):
                    if outs[0].kind != 'ret' or outs[k].kind != 'ret' or outs[j].kind != 'ret':
                        return None
                    d, y = outs[k].value, outs[j].value
                    if d is None or y is None:
                        return None
                    return veq(getattr(d, attr), y)
                obs.append(('get_birth_date:disagrees-with-' + other, ob_cons))
        if m in DATE_DIGITS:
            layout = DATE_DIGITS[m]

            def ob_digits(outs):
                if outs[0].kind != 'ret' or outs[k].kind != 'ret' or outs[k].value is None:
                    return None
                v, d = outs[0].value, outs[k].value
                lay = layout.get(len(v)) if isinstance(layout, dict) else layout
                if lay is None:
                    return None
                ys, ms, ds, fy = lay
                conj = []

                def num(sl):
                    s = v[sl[0]:sl[1]]
                    return E.m_int(s) if isinstance(s, E.SStr) else int(s)
                try:
                    if ms:
                        conj.append(veq(d.month, num(ms)))
                    if ds:
                        conj.append(veq(d.day, num(ds)))
                    if fy:
                        conj.append(veq(d.year, num(fy)))
                    elif ys:
                        yy = num(ys)
                        conj.append(veq(d.year % 100, yy))
                except ValueError:
                    return False
                return vand(conj)
            obs.append(('get_birth_date:disagrees-with-digits', ob_digits))
    if 'get_gender' in idx:
        k2 = idx['get_gender']

        def ob_gender(outs):
            if outs[0].kind != 'ret' or outs[k2].kind != 'ret':
                return None
            g = outs[k2].value
            if g is None:
                return True
            return vor([veq(g, 'M'), veq(g, 'F')])
        obs.append(('get_gender:not-M-or-F', ob_gender))
    if 'split' in idx:
        k3 = idx['split']
        k3t = 0
        if m == 'stdnum.ismn':
            # ismn.split() documents the 13-digit form (979, 0, publisher, item, check): the canonical number it splits is
            # to_ismn13(validate(x))
            calls.append(Call(m, 'to_ismn13', [R(0)]))
            k3t = len(calls) - 1

        def ob_split(outs):
            if outs[0].kind != 'ret' or outs[k3].kind != 'ret':
                return None
            parts = outs[k3].value
            if not isinstance(parts, (tuple, list)):
                return False
            c = concat(parts)
            if c is None:
                return False
            if outs[k3t].kind != 'ret':
                return False
            target = outs[k3t].value
            return veq(c, target)
        if m not in ('stdnum.isan',):
            obs.append(('split:parts-do-not-concatenate-to-the-number', ob_split))
    return calls, obs, (lambda outs: outs[0].kind == 'ret')


def unit_fn(unit):
    return run_relation_unit(unit, script)


def _in_scope(m, info):
    return bool(getters(info))


def make_units(tier, only):
    from spec.options import option_sets
    intro = common.introspect()
    units = []
    for m, info in sorted(intro.items()):
        if only and m not in only:
            continue
        gs = getters(info)
        if not gs:
            continue
        Ls = common.lengths_for(info, tier)
        if tier == 'quick':
            Ls = sorted(set(Ls + [max(len(v) for r, v in info['valid'])]))
        for L in Ls:
            u = {'module': m, 'options': {}, 'L': L, 'K': 1, 'getters': gs}
            u.update(dict(max_paths=1500, timeout=40, query_timeout_ms=5000) if tier == 'quick' else dict(max_paths=30000, timeout=600, query_timeout_ms=60000))
            units.append(u)
    import random
    rnd = random.Random(common.seed() * 104729 + 11)
    for m, info in sorted(intro.items()):
        if only and m not in only:
            continue
        if not _in_scope(m, info):
            continue
        gs = getters(info) if 'getters' in globals() else None
        for lit, pos in common.neighbourhoods(info, 2 if tier == 'quick' else 10, rnd):
            u = dict({'module': m, 'options': {}, 'K': 2, 'getters': gs}, literal=lit, positions=pos, L=len(lit))
            u.update(dict(max_paths=300, timeout=10, query_timeout_ms=5000) if tier == 'quick' else dict(max_paths=5000, timeout=120, query_timeout_ms=30000))
            units.append(u)
    return units


def main(args):
    intro = common.introspect()
    table = {m: getters(i) for m, i in intro.items() if getters(i)}
    return main_generic('C12', args, make_units, unit_fn, ASSUMPTIONS, bounds={'getters': table})
