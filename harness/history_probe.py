# loaded by the pristine replay worker: concrete probes for C13 (aliasing and first-use races)
import copy
import importlib
import threading
import time


def _wreck(obj, depth=0):
    """mutate every mutable container reachable from obj in place"""
    if depth > 6:
        return
    if isinstance(obj, dict):
        for v in list(obj.values()):
            _wreck(v, depth + 1)
        obj.clear()
        obj['wrecked'] = True
    elif isinstance(obj, list):
        for v in list(obj):
            _wreck(v, depth + 1)
        del obj[:]
    elif isinstance(obj, (tuple, set, frozenset)):
        for v in obj:
            _wreck(v, depth + 1)


def mutate_and_repeat(modname, func, x):
    """True iff mutating the returned value leaves the answer of the next identical call unchanged"""
    f = getattr(importlib.import_module(modname), func)
    first = f(x)
    snapshot = repr(first)
    _wreck(first)
    second = f(x)
    return repr(second) == snapshot


def race_first_use(what, arg):
    """two real threads make the first use of a lazily loaded object at (almost) the same time, the loader being slowed down;
    True iff both threads see the result a single-threaded first use gives"""
    results = {}
    if what == 'numdb.get':
        from stdnum import numdb
        numdb._open_databases.pop(arg, None)
        real_parse = numdb._parse

        def slow_parse(fp):
            for i, item in enumerate(real_parse(fp)):
                if i % 50 == 0:
                    time.sleep(0.002)
                yield item
        numdb._parse = slow_parse
        try:
            def work(k):
                db = numdb.get(arg)
                results[k] = sum(1 for _ in _walk(db.prefixes))
            ts = [threading.Thread(target=work, args=(k,)) for k in range(2)]
            ts[0].start()
            time.sleep(0.01)
            ts[1].start()
            for t in ts:
                t.join()
        finally:
            numdb._parse = real_parse
        numdb._open_databases.pop(arg, None)
        expected = sum(1 for _ in _walk(numdb.get(arg).prefixes))
        return all(v == expected for v in results.values())
    mod = importlib.import_module(what)
    mod._country_modules.clear()

    def work(k):
        results[k] = mod._get_cc_module(arg)
    ts = [threading.Thread(target=work, args=(k,)) for k in range(2)]
    for t in ts:
        t.start()
    for t in ts:
        t.join()
    mod._country_modules.clear()
    expected = mod._get_cc_module(arg)
    return all(v is expected for v in results.values())


def _walk(prefixes):
    for e in prefixes:
        yield e
        yield from _walk(e[4])
