# Run with the pristine interpreter:  /venv/bin/python -I introspect.py <repo>
# Prints JSON: per number module its public functions with signatures, and the doctest corpus
# (string literals from the module docstrings and its tests/*.doctest file that the module's own validate()
# accepts with default options).  The corpus only picks bounds (lengths) and vacuity witnesses; it never decides.
import ast
import doctest
import glob
import inspect
import json
import os
import sys


def literals_of_doctest_text(text):
    out = []
    try:
        examples = doctest.DocTestParser().get_examples(text)
    except Exception:
        return out
    for ex in examples:
        try:
            tree = ast.parse(ex.source)
        except Exception:
            continue
        for n in ast.walk(tree):
            if isinstance(n, ast.Constant) and isinstance(n.value, str):
                v = n.value
                if '\n' in v:
                    out.extend(x.strip() for x in v.splitlines() if x.strip())
                else:
                    out.append(v)
    return out


def main():
    repo = sys.argv[1]
    sys.path.insert(0, repo)
    import warnings
    warnings.simplefilter('ignore')
    from stdnum.util import get_number_modules
    from stdnum.exceptions import ValidationError
    res = {}
    for mod in get_number_modules():
        name = mod.__name__
        info = {'functions': {}, 'file': os.path.relpath(mod.__file__, repo)}
        for fname, f in sorted(mod.__dict__.items()):
            if fname.startswith('_') or not inspect.isfunction(f):
                continue
            if getattr(f, '__module__', None) != name and not (name.endswith(f.__module__.split('.')[-1])):
                # re-exported helper from another module (e.g. clean, isdigits): skip unless it is an API alias
                if fname not in ('validate', 'is_valid', 'compact', 'format'):
                    continue
            try:
                sig = inspect.signature(f)
                params = []
                for p in sig.parameters.values():
                    d = None if p.default is inspect._empty else repr(p.default)
                    params.append([p.name, d, str(p.kind)])
            except Exception:
                params = None
            info['functions'][fname] = {'params': params, 'module': f.__module__}
        texts = []
        for fname, f in mod.__dict__.items():
            if inspect.isfunction(f) and f.__doc__ and getattr(f, '__module__', None) == name:
                texts.append(f.__doc__)
        if mod.__doc__:
            texts.append(mod.__doc__)
        tname = 'test_' + name[len('stdnum.'):].replace('.', '_').replace('__', '_') + '.doctest'
        tpath = os.path.join(repo, 'tests', tname)
        if os.path.exists(tpath):
            texts.append(open(tpath, encoding='utf-8').read())
        lits = []
        for t in texts:
            lits.extend(literals_of_doctest_text(t))
        seen = set()
        valid = []
        for s in lits:
            if s in seen:
                continue
            seen.add(s)
            try:
                v = mod.validate(s)
            except Exception:
                continue
            if isinstance(v, str):
                valid.append([s, v])
        info['valid'] = valid
        res[name] = info
    # extended corpus: presentations that are doctest-valid for a sibling module of the same package and that this module's
    # own validate() accepts too (aggregating formats such as us.tin, be.ssn, es.nif have few examples of their own)
    mods = dict((m.__name__, m) for m in get_number_modules())
    for name, info in res.items():
        pkg = name.rsplit('.', 1)[0]
        if pkg == 'stdnum':
            info['valid_ext'] = []
            continue
        ext = []
        have = set(r for r, v in info['valid'])
        for other, oinfo in res.items():
            if other == name or other.rsplit('.', 1)[0] != pkg:
                continue
            for r, v in oinfo['valid']:
                if r in have:
                    continue
                try:
                    w = mods[name].validate(r)
                except Exception:
                    continue
                if isinstance(w, str):
                    ext.append([r, w])
                    have.add(r)
        info['valid_ext'] = ext
    json.dump(res, sys.stdout)


if __name__ == '__main__':
    main()
