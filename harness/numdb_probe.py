# loaded by the pristine replay worker (untransformed interpreter): small concrete probes of stdnum.numdb
import io


def _plain(prefixes):
    return [[l, lo, hi, dict(p), _plain(c)] for l, lo, hi, p, c in prefixes]


def probe(text, query):
    """read a registry from text with the real reader and look up query"""
    from stdnum import numdb
    db = numdb.read(io.StringIO(text + '\n'))
    return [[part, dict(props)] for part, props in db.info(query)]


def probe_shipped(name, query):
    from stdnum import numdb
    return [[part, dict(props)] for part, props in numdb.get(name).info(query)]


def probe_read(text):
    from stdnum import numdb
    return _plain(numdb.read(io.StringIO(text)).prefixes)
