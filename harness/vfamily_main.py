import sys
import time

from . import common, vfamily

BUDGET_S = {'quick': int(common.QUICK_S * 480 / 330), 'thorough': common.THOROUGH_S}

ASSUMPTIONS = [
    'CPython 3.12.1 / Unicode 15.0.0 character tables (taken from the running interpreter)',
    'engine models of builtins / str / re / datetime (symx/engine.py), validated per path by replaying a solver-generated witness on the untransformed code',
    'input is a str of one of the explored lengths; every character ranges over 0..0x10FFFF',
    'at most K exotic events per input (non-ASCII character, character removed by a filter/strip, case expansion); beyond K assumed away and counted in cuts_by_tag',
    'system date is an arbitrary valid date in 1970..2199 (stub for date.today()/datetime.now())',
]


def main(prop, args):
    units = vfamily.make_units(prop, args.tier, only=set(args.module) if args.module else None)
    if args.tier != 'quick':
        units = common.plan_thorough(units, vfamily.make_units(prop, 'quick', only=set(args.module) if args.module else None))
    units = common.shuffle_units(units)
    rep = common.Report(prop, args.tier)
    rep.assumptions = ASSUMPTIONS
    rep.bounds = {'lengths': 'per unit (from the doctest corpus; see units[].L)', 'K': 1, 'codepoints': '0..0x10FFFF',
                  'per_unit': {k: units[0][k] for k in ('max_paths', 'timeout', 'query_timeout_ms')} if units else {}}
    deadline = time.time() + BUDGET_S[args.tier]

    def progress(done, total, res):
        if args.verbose:
            u = res['unit']
            print('[%d/%d] %s L=%s %s %s' % (done, total, u['module'], u['L'], res.get('outcomes', res.get('error', res.get('skipped'))),
                                               res.get('wall_s')), file=sys.stderr)
    hard = lambda u: u.get('timeout', 30) * 2 + 30
    for res in common.run_units(vfamily.unit_fn, units, hard, progress, deadline):
        rep.add_unit(res)
    return rep.finish()
