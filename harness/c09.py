# C09: aggregate validators accept exactly what their constituent formats accept (DESIGN.md section 5, C09)
# Wrapper and constituent(s) are run on the same symbolic input in one path; the obligation is the documented relation.
import os

from symx import engine as E
from . import common
from .relfam import Call, X, R, run_relation_unit, main_generic, veq, vand, vor, vnot, vimplies

ASSUMPTIONS = [
    'the list of EU member states (27 + XI, with EL as alias of GR) and the wrapper/constituent relations are written down independently in this file (spec), not read from the code under test',
    'country-prefixed units: the two-letter prefix is concrete (upper- or lower-case variant), the rest is fully symbolic; one extra unit per wrapper uses a symbolic prefix outside the table',
    'input lengths from the constituent\'s doctest corpus; at most K exotic events per input',
    'engine models validated per path by witness replay on the untransformed code',
]

EU = ['at', 'be', 'bg', 'cy', 'cz', 'de', 'dk', 'ee', 'es', 'fi', 'fr', 'gr', 'hr', 'hu', 'ie', 'it', 'lt', 'lu', 'lv', 'mt', 'nl', 'pl',
      'pt', 'ro', 'se', 'si', 'sk']
# prefix used in a VAT number -> package that validates it
EU_PREFIX = dict((c.upper(), c) for c in EU)
EU_PREFIX['EL'] = 'gr'
EU_PREFIX['XI'] = 'gb'
del EU_PREFIX['GR']     # Greek numbers are written EL...; GR is accepted as well by the library: checked as alias below
EU_PREFIX['GR'] = 'gr'

NATIONAL_IBAN = {'BE': 'stdnum.be.iban', 'ES': 'stdnum.es.iban', 'ME': 'stdnum.me.iban', 'NO': 'stdnum.no.iban'}

UNIONS = {
    'stdnum.us.tin': ['stdnum.us.ssn', 'stdnum.us.itin', 'stdnum.us.ein', 'stdnum.us.ptin', 'stdnum.us.atin'],
    'stdnum.be.ssn': ['stdnum.be.nn', 'stdnum.be.bis'],
    'stdnum.th.tin': ['stdnum.th.moa', 'stdnum.th.pin'],
}
SUPERSETS = {'stdnum.es.nif': ['stdnum.es.dni', 'stdnum.es.nie', 'stdnum.es.cif']}


def _ok(o):
    return o.kind == 'ret'


def _rej(o):
    return o.kind in ('verr', 'exc')


def with_prefix(r, cc):
    """r if r starts with cc else cc + r (symbolic or concrete)"""
    r = E.force(r)
    if len(r) >= 2:
        starts = veq(r[:2], cc)
    else:
        starts = False
    if starts is True:
        return [(True, r)]
    if starts is False:
        return [(True, cc + r if isinstance(r, str) else E.SStr.of(cc) + r)]
    return [(starts, r), (vnot(starts), E.SStr.of(cc) + r)]


def script(unit):
    kind = unit['kind']
    if kind == 'eu.vat':
        cc, pkg = unit['cc'], unit['pkg']
        calls = [Call('stdnum.eu.vat', 'validate', [X()]), Call('stdnum.%s' % pkg, 'vat.validate', [X()], label='%s.vat.validate' % pkg),
                 Call('stdnum.vatin', 'validate', [X()], label='vatin.validate'), Call('stdnum.eu.vat', 'is_valid', [X()])]

        def ob_equiv(outs):
            return _ok(outs[0]) == _ok(outs[1])

        def ob_result(outs):
            if not (_ok(outs[0]) and _ok(outs[1])):
                return None
            alts = with_prefix(outs[1].value, unit['prefix'].upper())
            return vor([vand([c, veq(outs[0].value, v)]) if len(E.force(v)) == len(E.force(outs[0].value)) else False for c, v in alts])

        def ob_vatin(outs):
            if not _ok(outs[0]):
                return None
            return _ok(outs[2]) and veq(outs[2].value, outs[0].value)
        return calls, [('eu.vat:differs-from-member-state-validator', ob_equiv), ('eu.vat:result-does-not-carry-prefix', ob_result),
                       ('vatin:does-not-accept-what-eu.vat-accepts', ob_vatin)], None
    if kind == 'eu.vat-unknown':
        calls = [Call('stdnum.eu.vat', 'validate', [X()])]
        return calls, [('eu.vat:accepts-unknown-prefix', lambda outs: not _ok(outs[0]))], None
    if kind == 'vatin':
        pkg = unit['pkg']
        calls = [Call('stdnum.vatin', 'validate', [X()]), Call('stdnum.%s' % pkg, 'vat.validate', [X()], label='%s.vat.validate(x)' % pkg),
                 Call('stdnum.%s' % pkg, 'vat.validate', [('tail',)], label='%s.vat.validate(x[2:])' % pkg)]
        return calls, [('vatin:differs-from-country-validator', lambda outs: _ok(outs[0]) == (_ok(outs[1]) or _ok(outs[2])))], None
    if kind == 'union':
        w, subs = unit['module'], unit['subs']
        calls = [Call(w, 'validate', [X()])] + [Call(s, 'validate', [X()], label=s.split('.', 1)[1] + '.validate') for s in subs]
        calls.append(Call(w, 'guess_type', [X()]) if unit.get('guess') else Call(w, 'is_valid', [X()]))
        n = len(subs)

        def ob_union(outs):
            return _ok(outs[0]) == any(_ok(o) for o in outs[1:1 + n])

        def ob_value(outs):
            if not _ok(outs[0]):
                return None
            return vor([veq(outs[0].value, o.value) for o in outs[1:1 + n] if _ok(o)])
        obs = [('validate:not-the-union-of-subtypes', ob_union), ('validate:result-not-from-a-subtype', ob_value)]
        if unit.get('guess'):
            def ob_guess(outs):
                g = outs[1 + n]
                if g.kind != 'ret':
                    return False
                want = [s.rsplit('.', 1)[-1] for s, o in zip(subs, outs[1:1 + n]) if _ok(o)]
                if g.value is None or isinstance(g.value, str):
                    return g.value == (want[0] if want else None)     # be.ssn: the first accepting type
                return list(g.value) == want
            obs.append(('guess_type:does-not-list-exactly-the-accepting-subtypes', ob_guess))
        return calls, obs, None
    if kind == 'superset':
        w, sub = unit['module'], unit['sub']
        calls = [Call(sub, 'validate', [X()]), Call(w, 'validate', [X()], requires=[0])]
        return calls, [('validate:rejects-valid-' + sub.rsplit('.', 1)[-1], lambda outs: None if not _ok(outs[0]) else _ok(outs[1]))], (lambda outs: _ok(outs[0]))
    if kind == 'iban':
        nat = unit['national']
        calls = [Call('stdnum.iban', 'validate', [X()]), Call('stdnum.iban', 'validate', [X()], {'check_country': False}, label='iban.validate(check_country=False)')]
        if nat:
            calls.append(Call(nat, 'validate', [X()], label=nat.split('.', 1)[1] + '.validate'))

        def ob(outs):
            want = _ok(outs[1]) and (not nat or _ok(outs[2]))
            return _ok(outs[0]) == want

        def ob_val(outs):
            if not _ok(outs[0]):
                return None
            return veq(outs[0].value, outs[1].value)
        return calls, [('iban:not-generic-and-national', ob), ('iban:result-differs', ob_val)], None
    if kind == 'wrap':
        # one-to-one wrappers: wrapper accepts x  <=>  x has the documented shape and the constituent accepts the projected part
        w = unit['module']
        if w == 'stdnum.se.vat':
            calls = [Call(w, 'validate', [X()]), Call(w, 'compact', [X()]), Call('stdnum.se.orgnr', 'validate', [('slice', 1, 0, -2)], label='orgnr.validate(compact[:-2])')]
            ob = lambda outs: None if not _ok(outs[1]) else (_ok(outs[0]) == vand_bool([_ok(outs[2]), ends_with(outs[1].value, '01'), all_digits(outs[1].value)]))
        elif w == 'stdnum.no.mva':
            calls = [Call(w, 'validate', [X()]), Call(w, 'compact', [X()]), Call('stdnum.no.orgnr', 'validate', [('slice', 1, 0, -3)], label='orgnr.validate(compact[:-3])')]
            ob = lambda outs: None if not _ok(outs[1]) else (_ok(outs[0]) == vand_bool([_ok(outs[2]), ends_with(outs[1].value, 'MVA')]))
        elif w == 'stdnum.fi.ytunnus':
            calls = [Call(w, 'validate', [X()]), Call('stdnum.fi.alv', 'validate', [X()])]
            ob = lambda outs: _ok(outs[0]) == _ok(outs[1]) and (not _ok(outs[0]) or veq(outs[0].value, outs[1].value))
        elif w == 'stdnum.sk.rc':
            calls = [Call(w, 'validate', [X()]), Call('stdnum.cz.rc', 'validate', [X()])]
            ob = lambda outs: _ok(outs[0]) == _ok(outs[1]) and (not _ok(outs[0]) or veq(outs[0].value, outs[1].value))
        elif w == 'stdnum.mc.tva':
            calls = [Call(w, 'validate', [X()]), Call('stdnum.fr.tva', 'validate', [X()])]
            ob = lambda outs: vimplies_bool(_ok(outs[0]), _ok(outs[1]))
        else:
            raise ValueError(w)
        return calls, [('validate:differs-from-wrapped-format', ob)], None
    raise ValueError(kind)


def vand_bool(items):
    r = vand(items)
    return r


def vimplies_bool(a, b):
    return (not a) or b


def ends_with(v, suffix):
    v = E.force(v)
    if len(v) < len(suffix):
        return False
    return veq(v[len(v) - len(suffix):], suffix)


def all_digits(v):
    v = E.force(v)
    if isinstance(v, str):
        return v.isdigit() and v.isascii()
    import z3
    return z3.And([z3.And(c >= 48, c <= 57) if not isinstance(c, int) else z3.BoolVal(48 <= c <= 57) for c in v.chars]) if len(v) else False


def unit_fn(unit):
    return run_relation_unit(unit, script)


def _len_for(intro, mod, tier, extra=0):
    info = intro.get(mod)
    if not info or not info['valid']:
        return []
    import collections
    comps = [len(v) for r, v in info['valid']]
    if tier == 'quick':
        return [collections.Counter(comps).most_common(1)[0][0] + extra]
    return sorted(set(c + extra for c in comps) | set(len(r) + extra for r, v in info['valid']))


def make_units(tier, only):
    intro = common.introspect()
    units = []
    caps = dict(max_paths=1500, timeout=40, query_timeout_ms=6000, K=1) if tier == 'quick' else dict(max_paths=30000, timeout=600, query_timeout_ms=60000, K=2)

    def add(u):
        u.update(caps)
        u.setdefault('options', {k: u[k] for k in ('kind', 'cc', 'sub', 'national') if k in u})
        if only and u['module'] not in only:
            return
        units.append(u)
    for pre, pkg in sorted(EU_PREFIX.items()):
        cons = 'stdnum.%s.vat' % pkg
        for L in _len_for(intro, cons, tier):
            # national validators return the number without the country prefix for most countries: input = prefix + number
            variants = [pre] if tier == 'quick' else [pre, pre.lower(), pre[0] + pre[1].lower()]
            for p in variants:
                for LL in sorted(set([L + 2, L])):
                    if LL > len(p):
                        add({'module': 'stdnum.eu.vat', 'kind': 'eu.vat', 'cc': pre, 'pkg': pkg, 'prefix': p, 'L': LL})
    add({'module': 'stdnum.eu.vat', 'kind': 'eu.vat-unknown', 'L': 11, 'prefix': 'GB'})
    add({'module': 'stdnum.eu.vat', 'kind': 'eu.vat-unknown', 'L': 11, 'prefix': 'CH'})
    add({'module': 'stdnum.eu.vat', 'kind': 'eu.vat-unknown', 'L': 11, 'prefix': 'NO'})
    # vatin for every package exporting vat (discovered on disk: an independent reading of the package layout)
    root = os.path.join(common.REPO, 'stdnum')
    for d in sorted(os.listdir(root)):
        init = os.path.join(root, d, '__init__.py')
        if not os.path.exists(init):
            continue
        src = open(init, encoding='utf-8').read()
        has = os.path.exists(os.path.join(root, d, 'vat.py')) or ' as vat' in src
        if not has or d in ('eu',):
            continue
        cons = 'stdnum.%s.vat' % d
        # the alias module is not in the introspection table under that name: take lengths from the aliased module if needed
        Ls = _len_for(intro, cons, tier, 2)
        if not Ls:
            import re
            m = re.search(r'from stdnum\.%s import (\w+) as vat' % d, src)
            if m:
                Ls = _len_for(intro, 'stdnum.%s.%s' % (d, m.group(1)), tier, 2)
        for L in Ls[:1] if tier == 'quick' else Ls:
            add({'module': 'stdnum.vatin', 'kind': 'vatin', 'pkg': d, 'cc': d.upper(), 'prefix': d.upper(), 'L': L})
    for w, subs in UNIONS.items():
        Ls = sorted(set(l for s in subs for l in _len_for(intro, s, tier)) | set(_len_for(intro, w, tier)))
        for L in Ls:
            add({'module': w, 'kind': 'union', 'subs': subs, 'guess': w in ('stdnum.us.tin', 'stdnum.be.ssn'), 'L': L})
    for w, subs in SUPERSETS.items():
        for s in subs:
            for L in _len_for(intro, s, tier):
                add({'module': w, 'kind': 'superset', 'sub': s, 'L': L})
    for pre, nat in sorted(NATIONAL_IBAN.items()):
        for L in _len_for(intro, nat, tier):
            add({'module': 'stdnum.iban', 'kind': 'iban', 'national': nat, 'cc': pre, 'prefix': pre, 'L': L})
    for pre, L in (('NL', 18), ('DE', 22)):
        add({'module': 'stdnum.iban', 'kind': 'iban', 'national': None, 'cc': pre, 'prefix': pre, 'L': L})
    for w in ('stdnum.se.vat', 'stdnum.no.mva', 'stdnum.fi.ytunnus', 'stdnum.sk.rc', 'stdnum.mc.tva'):
        for L in _len_for(intro, w, tier):
            add({'module': w, 'kind': 'wrap', 'L': L})
    return units


def main(args):
    return main_generic('C09', args, make_units, unit_fn, ASSUMPTIONS, bounds={'eu_prefixes': sorted(EU_PREFIX), 'unions': UNIONS, 'supersets': SUPERSETS, 'national_iban': NATIONAL_IBAN})
