# shared harness machinery: unit scheduling over processes, introspection/corpus, evidence, known findings
import hashlib
import json
import multiprocessing as mp
import os
import random
import subprocess
import sys
import time
import traceback

VERIF = os.path.dirname(os.path.dirname(os.path.abspath(__file__)))
REPO = os.environ.get('SYMX_REPO', '/repo')
WORK = os.path.join(VERIF, '.work')
PRISTINE_PYTHON = '/venv/bin/python'
NPROC = int(os.environ.get('VERIF_JOBS', '16'))

HARNESS_ERROR = 2
# global budget (seconds of unit starts) of a thorough run; units themselves have their own caps
QUICK_S = int(330 * float(os.environ.get('VERIF_BUDGET_SCALE', '1')))   # global budget of unit starts in the quick tier (scale: for runs with fewer jobs)
THOROUGH_S = int(os.environ.get('VERIF_THOROUGH_BUDGET', '1200'))


def seed():
    try:
        return int(os.environ.get('VERIF_SEED', '0'))
    except ValueError:
        return 0


_intro = None


def introspect():
    """module table + doctest corpus from the pristine interpreter (recomputed from /repo on every run)"""
    global _intro
    if _intro is None:
        out = subprocess.run([PRISTINE_PYTHON, '-I', os.path.join(VERIF, 'harness', 'introspect.py'), REPO],
                             stdout=subprocess.PIPE, stderr=subprocess.PIPE, text=True)
        if out.returncode != 0:
            sys.stderr.write(out.stderr[-3000:])
            raise SystemExit(HARNESS_ERROR)
        _intro = json.loads(out.stdout)
    return _intro


def lengths_for(info, tier, kind='raw'):
    """input lengths to explore for a module, from its corpus: (quick: shortest raw + most frequent compact)"""
    raws = [len(r) for r, v in info['valid']]
    comps = [len(v) for r, v in info['valid']]
    if not raws:
        return []
    import collections
    if tier == 'quick':
        # one length per module: the most frequent compact length of its doctest-valid numbers
        return [collections.Counter(comps).most_common(1)[0][0]]
    lo, hi = min(raws + comps), max(raws + comps)
    return list(range(max(0, lo - 1), hi + 2))


def short_lengths(info, tier, modname):
    """very short inputs (0..4 characters) below the lengths taken from the corpus: numbers without their usual separator or
    suffix (a bare agency prefix, a bare country code) live there.  quick: one of them per module, rotated by the seed"""
    base = lengths_for(info, 'thorough')
    if not base:
        return []
    cands = [n for n in range(0, 5) if n < base[0]]
    if not cands:
        return []
    if tier == 'quick':
        import zlib
        return [cands[(zlib.crc32(modname.encode()) + seed()) % len(cands)]]
    return cands


# ---------------------------------------------------------------------------------------------
# known findings

def load_known_findings():
    path = os.path.join(VERIF, 'known_findings.jsonl')
    known, fixed = [], []
    if os.path.exists(path):
        for line in open(path, encoding='utf-8'):
            line = line.strip()
            if not line or line.startswith('#'):
                continue
            if line.startswith('fixed:'):
                fixed.append(line)
                continue
            known.append(json.loads(line))
    return known, fixed


def match_known(v, known):
    """a violation is a known finding iff an entry has the same identity key and its optional witness_regex / detail_regex
    (which pin the entry to the specific failing input shape) match"""
    import re
    key = finding_key(v)
    w = v.get('witness')
    wtxt = w if isinstance(w, str) else json.dumps(w, ensure_ascii=False)
    fields = ('property', 'module', 'func', 'options', 'kind', 'exc_type', 'frame')
    for k in known:
        # an entry field "*" matches any value (one defect seen under several option sets / value-type combinations); such
        # entries must carry a witness_regex that pins them to the failing input shape
        if any(str(k.get(f, '')) != '*' and str(k.get(f, '')) != str(v.get(f, '')) for f in fields):
            continue
        if '*' in [str(k.get(f, '')) for f in fields] and not (k.get('witness_regex') or k.get('detail_regex')):
            continue
        if k.get('witness_regex') and not re.search(k['witness_regex'], wtxt or ''):
            continue
        if k.get('detail_regex') and not re.search(k['detail_regex'], str(v.get('detail') or '')):
            continue
        return k
    return None


def finding_key(v):
    """identity of a violation: property, module, function, options, kind, exception type, innermost repo frame"""
    return '|'.join(str(v.get(k, '')) for k in ('property', 'module', 'func', 'options', 'kind', 'exc_type', 'frame'))


# ---------------------------------------------------------------------------------------------
# unit scheduling: every unit runs in its own forked process (hard time limit), up to NPROC at a time

def _child(fn, unit, conn):
    try:
        res = fn(unit)
    except BaseException as e:
        res = {'unit': unit, 'error': '%s: %s' % (type(e).__name__, e), 'trace': traceback.format_exc()[-1500:]}
    try:
        conn.send(res)
    except BaseException as e:
        conn.send({'unit': unit, 'error': 'result not sendable: %s' % e})
    conn.close()


def run_units(fn, units, hard_timeout, progress=None, deadline=None):
    """run fn(unit) for all units in forked subprocesses; yields result dicts (with 'unit').
    deadline: absolute time after which no new units are started (remaining are reported as skipped)."""
    ctx = mp.get_context('fork')
    pending = list(units)
    running = []   # (proc, conn, unit, t0)
    done = 0
    total = len(pending)
    while pending or running:
        while pending and len(running) < NPROC:
            if deadline and time.time() > deadline:
                for u in pending:
                    yield {'unit': u, 'skipped': 'global time budget exhausted'}
                    done += 1
                pending = []
                break
            u = pending.pop(0)
            pc, cc = ctx.Pipe(duplex=False)
            p = ctx.Process(target=_child, args=(fn, u, cc))
            p.start()
            cc.close()
            running.append((p, pc, u, time.time()))
        still = []
        progressed = False
        for p, pc, u, t0 in running:
            if pc.poll(0):
                try:
                    res = pc.recv()
                except EOFError:
                    res = {'unit': u, 'error': 'child died (exit %s)' % p.exitcode}
                p.join(5)
                if p.is_alive():
                    p.kill()
                pc.close()
                done += 1
                progressed = True
                if progress:
                    progress(done, total, res)
                yield res
            elif not p.is_alive():
                p.join()
                pc.close()
                done += 1
                progressed = True
                yield {'unit': u, 'error': 'child died (exit %s)' % p.exitcode}
            elif time.time() - t0 > (hard_timeout(u) if callable(hard_timeout) else hard_timeout):
                p.kill()
                p.join()
                pc.close()
                done += 1
                progressed = True
                yield {'unit': u, 'error': 'hard timeout %ds' % (hard_timeout(u) if callable(hard_timeout) else hard_timeout), 'timeout': True}
            else:
                still.append((p, pc, u, t0))
        running = still
        if not progressed:
            time.sleep(0.02)


# ---------------------------------------------------------------------------------------------
# evidence + verdict

class Report:
    def __init__(self, prop, tier, level='model_checking'):
        self.prop, self.tier, self.level = prop, tier, level
        self.t0 = time.time()
        self.units = []
        self.violations = []       # dicts with key fields + witness + replay steps
        self.samples = []
        self.counters = {'states': 0, 'transitions': 0, 'traces_validated_against_impl': 0, 'obligations': 0, 'discharged': 0,
                         'unknown': 0, 'divergences': 0, 'unsupported_paths': 0, 'cut_paths': 0, 'errors': 0, 'limits': 0,
                         'solver_queries': 0, 'vacuous_units': 0}
        self.solver_s = 0.0
        self.functions = set()
        self.cuts = {}
        self.unsupported = {}
        self.assumptions = []
        self.bounds = {}
        self.extra = {}
        self.harness_errors = []

    def add_unit(self, res):
        u = {k: v for k, v in res.items() if k not in ('violations', 'samples', 'functions')}
        self.units.append(u)
        if res.get('error') or res.get('skipped'):
            self.counters['errors'] += 1
            return
        for k in ('states', 'transitions', 'traces_validated_against_impl', 'obligations', 'discharged', 'unknown', 'divergences',
                  'unsupported_paths', 'cut_paths', 'solver_queries'):
            self.counters[k] += res.get(k, 0)
        if res.get('limit'):
            self.counters['limits'] += 1
        if res.get('vacuous'):
            self.counters['vacuous_units'] += 1
        self.solver_s += res.get('solver_s', 0.0)
        self.functions.update(res.get('functions', ()))
        for k, n in res.get('cuts', {}).items():
            self.cuts[k] = self.cuts.get(k, 0) + n
        for k, n in res.get('unsupported', {}).items():
            self.unsupported[k] = self.unsupported.get(k, 0) + n
        self.violations.extend(res.get('violations', ()))
        for s in res.get('samples', ()):
            if len(self.samples) < 60:
                self.samples.append(s)
        for h in res.get('harness_errors', ()):
            self.harness_errors.append(h)

    def finish(self):
        """writes evidence, prints KNOWN-FINDING / VIOLATION lines, returns exit code"""
        known, fixed = load_known_findings()
        new, seen_known = [], {}
        dedup = {}
        for v in self.violations:
            v['property'] = self.prop
            key = finding_key(v)
            if key in dedup:
                dedup[key]['count'] = dedup[key].get('count', 1) + 1
                continue
            dedup[key] = v
            k = match_known(v, known)
            if k is not None:
                seen_known[key] = v
            else:
                new.append(v)
        rdir = os.environ.get('VERIF_REPLAY_DIR') or os.path.join(VERIF, 'replays')
        os.makedirs(os.path.join(rdir, self.prop), exist_ok=True)
        for key, v in seen_known.items():
            print('KNOWN-FINDING: property=%s %s' % (self.prop, describe(v)))
        for v in new:
            h = hashlib.sha1(finding_key(v).encode('utf-8', 'backslashreplace')).hexdigest()[:12]
            path = os.path.join(rdir, self.prop, h + '.json')
            with open(path, 'w', encoding='utf-8') as f:
                json.dump(v, f, indent=1)
            print('VIOLATION property=%s replay=%s' % (self.prop, path))
            print('  ' + describe(v))
        wall = time.time() - self.t0
        cov = dict(self.counters)
        cov['states'] = max(cov['states'], 0)
        cov['samples'] = self.samples[:60] or [{'note': 'no path completed'}]
        cov['units'] = self.units
        cov['functions_encoded'] = sorted(self.functions)
        cov['cuts_by_tag'] = self.cuts
        cov['unsupported_sites'] = self.unsupported
        cov['bounds'] = self.bounds
        cov['solver'] = {'engine': 'z3 (python API, z3-solver wheel)', 'time_s': round(self.solver_s, 2), 'queries': self.counters['solver_queries']}
        cov['known_findings_seen'] = [describe(v) for v in seen_known.values()]
        cov['new_violations'] = [describe(v) for v in new]
        cov['exhaustive'] = False
        cov.update(self.extra)
        ev = {'property_id': self.prop, 'tier': self.tier, 'seed': seed(), 'level': self.level, 'coverage': cov,
              'assumptions': self.assumptions, 'wall_s': round(wall, 2), 'violations': len(new)}
        if cov['states'] < 1 or cov['transitions'] < 1:
            # keep the file schema-valid but truthful
            cov['states'] = max(1, cov['states'])
            cov['transitions'] = max(1, cov['transitions'])
            cov['note'] = 'no symbolic paths were completed in this run'
        evdir = os.environ.get('VERIF_EVIDENCE_DIR') or os.path.join(VERIF, 'evidence')
        os.makedirs(evdir, exist_ok=True)
        with open(os.path.join(evdir, self.prop + '.json'), 'w', encoding='utf-8') as f:
            json.dump(ev, f, indent=1, default=str)
        c = self.counters
        print('%s %s: units=%d paths=%d obligations=%d discharged=%d unknown=%d divergences=%d unsupported_paths=%d cut_paths=%d limits=%d errors=%d replayed=%d known=%d new=%d wall=%.0fs solver=%.0fs' % (
            self.prop, self.tier, len(self.units), c['states'], c['obligations'], c['discharged'], c['unknown'], c['divergences'],
            c['unsupported_paths'], c['cut_paths'], c['limits'], c['errors'], c['traces_validated_against_impl'], len(seen_known), len(new), wall, self.solver_s))
        if new:
            return 1
        if self.harness_errors:
            for h in self.harness_errors[:10]:
                print('HARNESS-ERROR: %s' % h)
            return HARNESS_ERROR
        return 0


def describe(v):
    parts = ['%s.%s' % (v.get('module', '?'), v.get('func', '?'))]
    if v.get('options'):
        parts.append('options=%s' % v['options'])
    parts.append(v.get('kind', ''))
    if v.get('exc_type'):
        parts.append('%s at %s' % (v['exc_type'], v.get('frame', '?')))
    if 'witness' in v:
        w = json.dumps(v['witness'], default=str)
        parts.append('input=%s' % (w if len(w) <= 300 else w[:120] + '… (%d characters, full value in the replay file)' % len(w)))
    if v.get('detail'):
        parts.append(str(v['detail']))
    return ' '.join(p for p in parts if p)


def neighbourhoods(info, n, rnd, npos=2):
    """n (literal, positions) pairs: doctest-valid presentations of the module (own + sibling-derived) with `npos` seed-chosen
    positions to be made fully symbolic; used as cheap, deep units next to the fully symbolic ones"""
    lits = [r for r, v in info['valid'] if len(r) >= 2] + [r for r, v in info.get('valid_ext', []) if len(r) >= 2]
    out = []
    if not lits:
        return out
    for k in range(n):
        lit = lits[rnd.randrange(len(lits))] if k >= len(lits) else rnd.sample(lits, len(lits))[0]
        pos = sorted(rnd.sample(range(len(lit)), min(npos, len(lit))))
        out.append((lit, pos))
    return out


def sym_input(E, unit, name='s'):
    """the symbolic input of a unit: fully symbolic string of length L (optional concrete prefix / charset), or the
    neighbourhood of a literal (unit['literal'], unit['positions'])"""
    lo, hi = unit.get('charset', (0, 0x10ffff))
    if unit.get('literal') is not None:
        s0, chars = E.symstr(len(unit['positions']), name, lo, hi)
        cs = [ord(ch) for ch in unit['literal']]
        for p, c in zip(unit['positions'], chars):
            cs[p] = c
        return E.SStr(cs), chars
    x, chars = E.symstr(unit['L'], name, lo, hi)
    if unit.get('repeat'):
        # very long text: the L symbolic characters repeated (length L * repeat); same variables at every repetition
        return E.SStr(list(chars) * unit['repeat']), chars
    if unit.get('shape') in ('list', 'tuple'):
        # a sequence of one-character strings: clean() joins them, so this is a real path into the validators
        seq = [E.SStr([c]) for c in chars]
        return (seq if unit['shape'] == 'list' else tuple(seq)), chars
    for ch in unit.get('exclude') or '':
        for c in chars:
            E.assume(c != ord(ch))
    pre = unit.get('prefix')
    if pre:
        x = E.SStr([ord(c) for c in pre] + chars[len(pre):])
    return x, chars


def _prio(u):
    if not isinstance(u, dict):
        return 0
    if 'prio' in u:
        return u['prio']
    if u.get('kind') == 'shapes':
        return 0
    if 'shape' in u:
        return 2
    if 'literal' in u:
        return 1
    return 0


def _ukey(u):
    if not isinstance(u, dict):
        return repr(u)
    d = {k: u.get(k) for k in ('module', 'options', 'L', 'kind', 'shape', 'ajax', 'n', 'registry', 'ref', 'func', 'qlen', 'repeat', 'window', 'chunk', 'ais')}
    d['literal'] = u.get('literal') is not None
    if isinstance(u.get('cfg'), (list, tuple)):
        d['cfg'] = list(u['cfg'][:3])
    return json.dumps(d, sort_keys=True, default=str)


def plan_thorough(units, quick_units):
    """thorough tier = everything the quick tier explores, with larger caps, first; then the additional lengths / options /
    neighbourhoods for as long as the global budget lasts.  Per-unit time caps are scaled so that the first class fits into
    ~55 % of the CPU budget (NPROC x THOROUGH_S) and never drop below twice the quick cap."""
    qk = {}
    for q in quick_units:
        qk[_ukey(q)] = q
    first, rest = [], []
    for u in units:
        q = qk.get(_ukey(u)) if isinstance(u, dict) else None
        if q is not None:
            u['prio'] = min(_prio(q), u.get('prio', 0))
            u['_quick_timeout'] = q.get('timeout', 30)
            first.append(u)
        else:
            u['prio'] = _prio(u) + 4
            rest.append(u)
    cpu = NPROC * THOROUGH_S
    if first:
        share = 0.55 * cpu / len(first)
        for u in first:
            u['timeout'] = int(max(2 * u.pop('_quick_timeout'), min(u.get('timeout', 60), share)))
    if rest:
        share = 0.45 * cpu / len(rest)
        for u in rest:
            u['timeout'] = int(max(20, min(u.get('timeout', 60), share)))
    return units


def shuffle_units(units):
    """seeded shuffle within priority classes: whole-module units first, then neighbourhood units, then container shapes,
    so that the global time budget of the quick tier cuts the cheapest-to-lose units"""
    r = random.Random(seed())
    units = list(units)
    if os.environ.get('VERIF_ONLY_SHORT'):
        # maintenance sweep: only the very short whole-string units (all lengths 0..4 in the thorough tier)
        units = [u for u in units if isinstance(u, dict) and isinstance(u.get('L'), int) and u['L'] <= 4 and u.get('literal') is None
                 and not u.get('repeat') and u.get('shape') not in ('list', 'tuple') and u.get('kind') != 'shapes']
    r.shuffle(units)
    units.sort(key=_prio)
    return units
