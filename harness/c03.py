# C03: the validation outcome depends only on the compact form (DESIGN.md section 5, C03)
# Decided through the pair (x, compact(x)): if compact is idempotent on the path (checked, it is an obligation's premise) and
# validate treats every x like its own compact form, then any two inputs with equal compact forms are treated alike.
# Each reported violation is a concrete pair (x, y=compact(x)) with compact(x) == compact(y) and different outcomes.
from . import common
from .relfam import Call, X, R, run_relation_unit, main_generic, same_outcome, veq, vimplies

EXCLUDED = {'stdnum.isan', 'stdnum.meid', 'stdnum.us.ssn', 'stdnum.us.itin', 'stdnum.us.ein', 'stdnum.us.atin', 'stdnum.us.tin'}

ASSUMPTIONS = [
    'pairs explored: (x, compact(x)) for a fully symbolic x; by transitivity this covers all pairs with equal compact forms on paths where compact(compact(x)) == compact(x) (the premise is part of the obligation, not assumed)',
    'input lengths from the doctest corpus; at most K exotic events (separator / non-ASCII / stripped character) per input',
    'formats excluded by the property itself: ISAN, MEID, US SSN/ITIN/EIN/ATIN/TIN; modules without compact() are out of scope',
    'engine models validated per path by witness replay on the untransformed code',
]


def script(unit):
    m, o = unit['module'], unit['options']
    calls = [Call(m, 'compact', [X()]), Call(m, 'compact', [R(0)], label='compact(compact)'),
             Call(m, 'validate', [X()], o), Call(m, 'validate', [R(0)], o, label='validate(compact)')]

    def ob(outs):
        if outs[0].kind != 'ret' or outs[1].kind != 'ret':
            return None
        so = same_outcome(outs[2], outs[3])
        if outs[2].kind in ('verr', 'exc') and outs[3].kind in ('verr', 'exc'):
            so = True
        return vimplies(veq(outs[1].value, outs[0].value), so)
    return calls, [('validate:outcome-depends-on-presentation', ob)], (lambda outs: outs[0].kind == 'ret')


def unit_fn(unit):
    return run_relation_unit(unit, script)


def _in_scope(m, info):
    return m not in EXCLUDED and 'compact' in info['functions']


def make_units(tier, only):
    from spec.options import option_sets
    intro = common.introspect()
    units = []
    for m, info in sorted(intro.items()):
        if only and m not in only:
            continue
        if m in EXCLUDED or 'compact' not in info['functions']:
            continue
        params = [p[0] for p in (info['functions']['compact'].get('params') or [])]
        for opts in option_sets(m, info, tier):
            for L in lengths(info, tier):
                u = {'module': m, 'options': opts, 'L': L, 'K': 1 if tier == 'quick' else 2}
                u.update(dict(max_paths=1500, timeout=25, query_timeout_ms=5000) if tier == 'quick' else dict(max_paths=30000, timeout=400, query_timeout_ms=60000))
                units.append(u)
    # aggregating VAT validators: one unit per country prefix (concrete prefix, symbolic rest), as in C09
    from .c09 import EU_PREFIX, _len_for
    for wrapper in ('stdnum.eu.vat', 'stdnum.vatin'):
        if only and wrapper not in only:
            continue
        for pre, pkg in sorted(EU_PREFIX.items()):
            for L in _len_for(intro, 'stdnum.%s.vat' % pkg, tier)[:1 if tier == 'quick' else None]:
                u = {'module': wrapper, 'options': {}, 'L': L + 2, 'K': 1, 'prefix': pre}
                u.update(dict(max_paths=600, timeout=15, query_timeout_ms=5000) if tier == 'quick' else dict(max_paths=20000, timeout=300, query_timeout_ms=60000))
                units.append(u)
    import random
    rnd = random.Random(common.seed() * 104729 + 11)
    for m, info in sorted(intro.items()):
        if only and m not in only:
            continue
        if not _in_scope(m, info):
            continue
        gs = getters(info) if 'getters' in globals() else None
        for lit, pos in common.neighbourhoods(info, 2 if tier == 'quick' else 10, rnd):
            u = dict({'module': m, 'options': {}, 'K': 2}, literal=lit, positions=pos, L=len(lit))
            u.update(dict(max_paths=300, timeout=10, query_timeout_ms=5000) if tier == 'quick' else dict(max_paths=5000, timeout=120, query_timeout_ms=30000))
            units.append(u)
    return units


def lengths(info, tier):
    # raw presentations (with separators) are where the property bites: quick = the longest-decorated doctest presentation
    raws = sorted(set(len(r) for r, v in info['valid']))
    comps = sorted(set(len(v) for r, v in info['valid']))
    if not raws:
        return []
    if tier == 'quick':
        import collections
        c = collections.Counter(len(r) for r, v in info['valid'] if len(r) > len(v))
        return [c.most_common(1)[0][0]] if c else [raws[-1]]
    return list(range(max(0, min(raws + comps) - 1), max(raws + comps) + 2))


def main(args):
    return main_generic('C03', args, make_units, unit_fn, ASSUMPTIONS)
