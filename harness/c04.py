# C04: format() preserves the identity of a valid number (DESIGN.md section 5, C04)
# On every accepting path of validate(x):  validate(format(x)) returns N(validate(x));  format(validate(x)) == format(x).
from . import common
from .relfam import Call, X, R, run_relation_unit, main_generic, veq, vand

ASSUMPTIONS = [
    'inputs: fully symbolic strings of the explored lengths (doctest corpus lengths); at most K exotic events per input',
    'format options: default, separator \'\' and the documented boolean / enumerated options (see bounds.format_options)',
    'documented normalisations (from the property text): ISMN compared in 13-digit form (ismn.to_ismn13), ISAN compared with check '
    'characters added (validate(..., add_check_digits=True)), ISIL agency prefix upper-cased, MEID compared without check digit',
    'engine models validated per path by witness replay on the untransformed code',
]

# format() keyword options explored per module (in addition to the default call)
FORMAT_OPTIONS = {
    'stdnum.imei': [{'add_check_digit': True}, {'separator': ''}],
    'stdnum.isan': [{'separator': ''}],
    'stdnum.isbn': [{'convert': True}, {'separator': ''}, {'separator': ' '}],
    'stdnum.ismn': [{'separator': ''}],
    'stdnum.isrc': [{'separator': ''}],
    'stdnum.grid': [{'separator': ''}],
    'stdnum.iban': [{'separator': ''}],
    'stdnum.be.iban': [{'separator': ''}], 'stdnum.es.iban': [{'separator': ''}], 'stdnum.me.iban': [{'separator': ''}], 'stdnum.no.iban': [{'separator': ''}],
    'stdnum.fr.nir': [{'separator': ''}], 'stdnum.fr.siret': [{'separator': ''}], 'stdnum.gb.nhs': [{'separator': ''}],
    'stdnum.meid': [{'format': 'hex'}, {'format': 'dec'}, {'add_check_digit': True}, {'separator': ''}],
    'stdnum.mx.rfc': [{'separator': ''}],
    'stdnum.de.stnr': [],
}


def script(unit):
    m, fo = unit['module'], unit['options']
    calls = [Call(m, 'validate', [X()]), Call(m, 'format', [X()], fo, requires=[0]), Call(m, 'validate', [R(1)], label='validate(format)'),
             Call(m, 'format', [R(0)], fo, label='format(validate)')]
    norm = None
    pres = 3
    if m == 'stdnum.ismn':
        calls += [Call(m, 'to_ismn13', [R(0)]), Call(m, 'to_ismn13', [R(2)])]
        norm = (4, 5)
    elif m == 'stdnum.isan':
        calls += [Call(m, 'validate', [R(0)], {'add_check_digits': True}), Call(m, 'validate', [R(2)], {'add_check_digits': True})]
        norm = (4, 5)
    elif m == 'stdnum.meid':
        calls += [Call(m, 'compact', [R(0)], {'strip_check_digit': True}), Call(m, 'compact', [R(2)], {'strip_check_digit': True})]
        norm = (4, 5)
        # "MEID check digit dropped by validate": format() keeps a check digit that is present, so the presentation-independent
        # text is the one of the canonical number *with* its check digit: validate(x, strip_check_digit=False)
        calls += [Call(m, 'validate', [X()], {'strip_check_digit': False}, requires=[0]), Call(m, 'format', [R(6)], fo, label='format(validate keeping the check digit)')]
        pres = 7
    elif m == 'stdnum.isbn' and fo.get('convert'):
        calls += [Call(m, 'to_isbn13', [R(0)]), Call(m, 'to_isbn13', [R(2)])]
        norm = (4, 5)
    elif m == 'stdnum.imei' and fo.get('add_check_digit'):
        norm = 'prefix'

    def ob_identity(outs):
        if outs[0].kind != 'ret':
            return None
        if outs[1].kind != 'ret' or outs[2].kind != 'ret':
            return False
        if norm == 'prefix':
            a, b = outs[0].value, outs[2].value
            return veq(b[:len(a)], a) if len(b) >= len(a) else False
        if norm:
            i, j = norm
            if outs[i].kind != 'ret' or outs[j].kind != 'ret':
                return False
            return veq(outs[i].value, outs[j].value)
        if m == 'stdnum.isil':
            a, b = outs[0].value, outs[2].value
            if len(a) != len(b):
                return False
            from symx import engine as E
            up = lambda s: s.upper() if isinstance(s, str) else E.SStr.of(s).upper()
            return veq(up(a), up(b))
        return veq(outs[0].value, outs[2].value)

    def ob_presentation(outs):
        if outs[0].kind != 'ret':
            return None
        if outs[1].kind != 'ret' or outs[pres].kind != 'ret':
            return False
        return veq(outs[1].value, outs[pres].value)
    return calls, [('format:formatted-number-not-the-same-valid-number', ob_identity), ('format:depends-on-presentation', ob_presentation)], (lambda outs: outs[0].kind == 'ret')


def unit_fn(unit):
    return run_relation_unit(unit, script)


def _in_scope(m, info):
    return 'format' in info['functions']


def make_units(tier, only):
    intro = common.introspect()
    units = []
    for m, info in sorted(intro.items()):
        if only and m not in only:
            continue
        if 'format' not in info['functions']:
            continue
        for fo in [{}] + FORMAT_OPTIONS.get(m, []):
            for L in lengths(info, tier):
                u = {'module': m, 'options': fo, 'L': L, 'K': 1}
                u.update(dict(max_paths=1500, timeout=25, query_timeout_ms=5000) if tier == 'quick' else dict(max_paths=30000, timeout=400, query_timeout_ms=60000))
                units.append(u)
    for m, info in sorted(intro.items()):
        if only and m not in only:
            continue
        if 'format' not in info['functions']:
            continue
        for L in common.short_lengths(info, tier, m):
            u = {'module': m, 'options': {}, 'L': L, 'K': 1, 'prio': 2}
            u.update(dict(max_paths=300, timeout=8, query_timeout_ms=4000) if tier == 'quick' else dict(max_paths=5000, timeout=60, query_timeout_ms=30000))
            units.append(u)
    import random
    rnd = random.Random(common.seed() * 104729 + 11)
    for m, info in sorted(intro.items()):
        if only and m not in only:
            continue
        if not _in_scope(m, info):
            continue
        gs = getters(info) if 'getters' in globals() else None
        for lit, pos in common.neighbourhoods(info, 2 if tier == 'quick' else 10, rnd):
            u = dict({'module': m, 'options': {}, 'K': 2}, literal=lit, positions=pos, L=len(lit))
            u.update(dict(max_paths=300, timeout=10, query_timeout_ms=5000) if tier == 'quick' else dict(max_paths=5000, timeout=120, query_timeout_ms=30000))
            units.append(u)
    return units


def lengths(info, tier):
    raws = sorted(set(len(r) for r, v in info['valid']))
    comps = sorted(set(len(v) for r, v in info['valid']))
    if not raws:
        return []
    if tier == 'quick':
        import collections
        return sorted(set([collections.Counter(len(v) for r, v in info['valid']).most_common(1)[0][0]]))
    return list(range(max(0, min(raws + comps) - 1), max(raws + comps) + 2))


def main(args):
    return main_generic('C04', args, make_units, unit_fn, ASSUMPTIONS, bounds={'format_options': FORMAT_OPTIONS})
