# entry point:  python -m harness.run <Cnn> --tier quick|thorough [--module stdnum.x ...]
import argparse
import importlib
import os
import sys
import time

from . import common


PROPS = {
    'C01': 'harness.c01', 'C02': 'harness.c02', 'C15': 'harness.c15', 'C14': 'harness.c14', 'C06': 'harness.c06', 'C17': 'harness.c17', 'C03': 'harness.c03', 'C04': 'harness.c04', 'C12': 'harness.c12', 'C08': 'harness.c08', 'C09': 'harness.c09', 'C05': 'harness.c05', 'C10': 'harness.c10', 'C11': 'harness.c11', 'C07': 'harness.c07', 'C18': 'harness.c18', 'C16': 'harness.c16', 'C13': 'harness.c13',
}


def main():
    ap = argparse.ArgumentParser()
    ap.add_argument('prop')
    ap.add_argument('--tier', default=os.environ.get('VERIF_TIER', 'quick'))
    ap.add_argument('--module', action='append')
    ap.add_argument('--verbose', '-v', action='store_true')
    a = ap.parse_args()
    if a.tier not in ('quick', 'thorough'):
        a.tier = 'quick'
    os.makedirs(common.WORK, exist_ok=True)
    # unicode tables are computed once in the parent so that the forked units inherit them
    from symx import tables
    tables.tables()
    try:
        mod = importlib.import_module('harness.' + a.prop.lower())
    except ImportError as e:
        print('no harness for %s (%s)' % (a.prop, e))
        return common.HARNESS_ERROR
    return mod.main(a)


if __name__ == '__main__':
    sys.exit(main())
