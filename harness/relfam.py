# Generic "relation" harness: a property is a short script of calls of real stdnum functions on a symbolic input plus
# obligations (predicates over the outcomes of those calls).  The same script is executed symbolically (engine) and, for
# every path's witness and every counterexample, concretely on the untouched code (replay worker); the same predicates
# are evaluated on both.  Used by C03, C04, C05, C08, C09, C12.
import datetime
import importlib
import json
import sys
import time

import z3

from symx import engine as E
from symx.replay import step, Ref
from . import common
from .symrun import UnitResult


class Out:
    """outcome of one call: kind in ret / verr (ValidationError) / exc (other exception) / skip"""

    def __init__(self, kind, value=None, exc=None):
        self.kind, self.value, self.exc = kind, value, exc

    def __repr__(self):
        return 'Out(%s, %r, %s)' % (self.kind, self.value, self.exc)


def X():
    return ('x',)


def R(k):
    return ('ref', k)


def ITEM(k, i):
    return ('item', k, i)


class Call:
    def __init__(self, mod, func, args, kwargs=None, label=None, requires=()):
        self.mod, self.func, self.args, self.kwargs, self.label = mod, func, list(args), dict(kwargs or {}), label or func
        self.requires = tuple(requires)     # indices of earlier calls that must have returned, else this call is skipped


def _resolve(a, x, outs):
    if isinstance(a, tuple) and a and a[0] == 'x':
        return x
    if isinstance(a, tuple) and a and a[0] == 'ref':
        o = outs[a[1]]
        if o.kind != 'ret':
            raise LookupError
        return o.value
    if isinstance(a, tuple) and a and a[0] == 'item':
        o = outs[a[1]]
        if o.kind != 'ret':
            raise LookupError
        return E.getitem(o.value, a[2]) if isinstance(o.value, E.SYM_TYPES) else o.value[a[2]]
    if isinstance(a, tuple) and a and a[0] == 'tail':
        return x[2:]
    if isinstance(a, tuple) and a and a[0] == 'xslice':
        return x[a[1]:a[2]]
    if isinstance(a, tuple) and a and a[0] == 'cat':
        parts = [E.force(_resolve(p, x, outs)) for p in a[1:]]
        out = []
        for p in parts:
            if not isinstance(p, (str, E.SStr)):
                raise LookupError
            out.extend(E.SStr.of(p).chars)
        return E.mk(out)
    if isinstance(a, tuple) and a and a[0] == 'slice':
        o = outs[a[1]]
        if o.kind != 'ret':
            raise LookupError
        return E.force(o.value)[a[2] or None:a[3] or None]
    return a


def run_symbolic(calls, x, VE):
    outs = []
    for c in calls:
        if any(outs[k].kind != 'ret' for k in c.requires):
            outs.append(Out('skip'))
            continue
        try:
            args = [_resolve(a, x, outs) for a in c.args]
            kwargs = {k: _resolve(v, x, outs) for k, v in c.kwargs.items()}
        except LookupError:
            outs.append(Out('skip'))
            continue
        mod = E.load_file(c.mod, c.file) if getattr(c, 'file', None) and c.mod not in sys.modules else importlib.import_module(c.mod)
        f = mod
        for part in c.func.split('.'):
            f = getattr(f, part)
        try:
            outs.append(Out('ret', E.RT.call(f, *args, **kwargs)))
        except VE as e:
            outs.append(Out('verr', exc=type(e).__name__))
        except Exception as e:
            o = Out('exc', exc=type(e).__name__)
            import traceback
            o.tb = ''.join(traceback.format_exception(e)[-3:])[-600:]
            outs.append(o)
    return outs


def steps_for(calls, xs):
    out = []
    for c in calls:
        def enc(a):
            if isinstance(a, tuple) and a and a[0] == 'x':
                return xs
            if isinstance(a, tuple) and a and a[0] == 'ref':
                return Ref(a[1])
            if isinstance(a, tuple) and a and a[0] == 'item':
                return ('$item', a[1], a[2])
            if isinstance(a, tuple) and a and a[0] == 'tail':
                return xs[2:]
            if isinstance(a, tuple) and a and a[0] == 'xslice':
                return xs[a[1]:a[2]]
            if isinstance(a, tuple) and a and a[0] == 'cat':
                return ('$cat', [enc(p) for p in a[1:]])
            if isinstance(a, tuple) and a and a[0] == 'slice':
                return ('$slice', a[1], a[2], a[3])
            return a
        from symx.replay import enc_arg

        def enc2(e):
            if isinstance(e, tuple) and e and e[0] == '$item':
                return {'$item': [e[1], e[2]]}
            if isinstance(e, tuple) and e and e[0] == '$slice':
                return {'$slice': [e[1], e[2], e[3]]}
            if isinstance(e, tuple) and e and e[0] == '$cat':
                return {'$cat': [enc2(p) for p in e[1]]}
            return enc_arg(e)
        args = [enc2(enc(a)) for a in c.args]
        kwargs = {k: enc2(enc(a)) for k, a in c.kwargs.items()}
        d = {'mod': c.mod, 'func': c.func, 'args': args, 'kwargs': kwargs, 'requires': list(c.requires)}
        if getattr(c, 'file', None):
            d['file'] = c.file
        out.append(d)
    return out


def decode_real(r):
    """worker result dict -> Out with python value"""
    if r['kind'] == 'skipped':
        return Out('skip')
    if r['kind'] == 'exc':
        return Out('verr' if r.get('validation_error') else 'exc', exc=r['type'])
    return Out('ret', _dec(r))


def _dec(r):
    t, v = r.get('type'), r.get('value')
    if t in ('str', 'int', 'bool', 'NoneType'):
        return v
    if t == 'date':
        return datetime.date.fromisoformat(v)
    if t == 'datetime':
        return datetime.datetime.fromisoformat(v)
    if t == 'list':
        return [_dec(x) for x in v]
    if t == 'tuple':
        return tuple(_dec(x) for x in v)
    if t == 'dict':
        return {_hashable(_dec(k)): _dec(x) for k, x in v}
    if t == 'float':
        return float(v)
    if t == 'Decimal':
        import decimal
        return decimal.Decimal(v)
    if t == 'bytes':
        return bytes.fromhex(v)
    return ('opaque', t, v)


def _hashable(x):
    return tuple(x) if isinstance(x, list) else x


# ---- predicates usable on symbolic and concrete values alike (return z3 Bool or python bool)

def veq(a, b):
    a, b = E.force(a), E.force(b)
    if isinstance(a, (str, E.SStr)) and isinstance(b, (str, E.SStr)):
        if isinstance(a, str) and isinstance(b, str):
            return a == b
        return E.SStr.of(a)._eqz(b)
    if isinstance(a, (E.SInt, E.SBool)) or isinstance(b, (E.SInt, E.SBool)):
        if isinstance(a, (int, E.SInt, E.SBool)) and isinstance(b, (int, E.SInt, E.SBool)):
            return E.zint(a) == E.zint(b)
        return False
    if isinstance(a, E.SDecimal) or isinstance(b, E.SDecimal):
        if not isinstance(a, E.SDecimal):
            a, b = b, a
        r = a.__eq__(b)
        return r.z if isinstance(r, E.SBool) else bool(r)
    if isinstance(a, E.SDate) or isinstance(b, E.SDate):
        if isinstance(a, (E.SDate, datetime.date)) and isinstance(b, (E.SDate, datetime.date)):
            return E.zbool(E.SDate.of(a) == b)
        return False
    if isinstance(a, (list, tuple)) and isinstance(b, (list, tuple)):
        if len(a) != len(b) or type(a) is not type(b):
            return False
        return vand([veq(p, q) for p, q in zip(a, b)])
    if isinstance(a, dict) and isinstance(b, dict):
        if len(a) != len(b):
            return False
        try:
            return vand([veq(a[k], b[k]) for k in a])
        except KeyError:
            return False
    if type(a) is not type(b):
        return False
    return a == b


def vand(items):
    zs = []
    for i in items:
        if isinstance(i, bool):
            if not i:
                return False
        else:
            zs.append(i)
    return z3.And(zs) if zs else True


def vor(items):
    zs = []
    for i in items:
        if isinstance(i, bool):
            if i:
                return True
        else:
            zs.append(i)
    return z3.Or(zs) if zs else False


def vnot(a):
    return (not a) if isinstance(a, bool) else z3.Not(a)


def vimplies(a, b):
    return vor([vnot(a), b])


def same_outcome(o1, o2):
    """both rejected, or both accepted with the same value"""
    if o1.kind == 'ret' and o2.kind == 'ret':
        return veq(o1.value, o2.value)
    if o1.kind in ('verr',) and o2.kind in ('verr',):
        return True
    return False


def concat(parts):
    out = []
    for p in parts:
        p = E.force(p)
        if not isinstance(p, (str, E.SStr)):
            return None
        out.extend(E.SStr.of(p).chars)
    return E.mk(out)


# ---- the generic unit

def run_relation_unit(unit, script):
    """script(modname, info, opts) -> (calls, obligations) where obligations = [(name, pred(outs) -> z3 Bool|bool|None)];
    None means 'not applicable on this path'."""
    modname, opts, L, K = unit['module'], unit['options'], unit['L'], unit['K']
    E.install(common.REPO)
    E.CONFIG['K'] = K
    E.CONFIG['query_timeout_ms'] = unit.get('query_timeout_ms', 10000)
    importlib.import_module(modname)
    VE = sys.modules['stdnum.exceptions'].ValidationError
    ur = UnitResult(unit)
    calls, obligations, need = script(unit)
    lo, hi = unit.get('charset', (0, 0x10ffff))

    def body():
        x, chars = common.sym_input(E, unit)
        outs = run_symbolic(calls, x, VE)
        return x, outs
    interesting = 0
    for st, out in E.explore(body, max_paths=unit.get('max_paths', 2000), timeout=unit.get('timeout', 30)):
        if st is None:
            ur.limit(out)
            break
        ur.path(st, out)
        if out[0] == 'exc':
            ur.res['harness_errors'].append('exception escaped harness body: %r' % (out[1],))
            continue
        if out[0] != 'ret':
            continue
        x, outs = out[1]
        if need is not None and not need(outs):
            ur.outcome('not-interesting')
            continue
        model = st.witness_model()
        if model is None:
            if getattr(st, 'last_status', '') == 'unknown':
                ur.res['unknown'] += 1
            ur.outcome('no-witness')
            continue
        xs = E.model_str(model, x)
        today = ur.today_of(st, model)
        steps = steps_for(calls, xs)
        real = ur.replay(steps, today)
        if real is None:
            continue
        routs = [decode_real(r) for r in real]
        # engine validation: every call's symbolic outcome, evaluated under the witness, must be the real outcome
        bad = None
        for k, (so, ro) in enumerate(zip(outs, routs)):
            if so.kind != ro.kind or (so.kind != 'ret' and so.exc != ro.exc):
                bad = (k, so.kind, so.exc, ro.kind, ro.exc)
                break
            if so.kind == 'ret':
                sv = E.model_val(model, so.value)
                if _comparable(sv) and _comparable(ro.value) and sv != ro.value:
                    bad = (k, 'value', repr(sv)[:80], repr(ro.value)[:80])
                    break
        if bad:
            ur.divergence({'input': xs, 'call': calls[bad[0]].label, 'detail': bad[1:], 'today': str(today), 'tb': getattr(outs[bad[0]], 'tb', None)})
            continue
        interesting += 1
        ur.sample({'module': modname, 'input': xs, 'outcomes': [(c.label, o.kind if o.kind != 'ret' else common_repr(E.model_val(model, o.value))) for c, o in zip(calls, outs)][:6]})
        for name, pred in obligations:
            try:
                phi = pred(outs)
            except E.Abort:
                raise
            if phi is None:
                continue
            if phi is False:
                # violated on the whole path: the path's own witness is the counterexample
                ur.res['obligations'] += 1
                res, m2 = 'sat', model
            else:
                res, m2 = ur.obligation(st, phi)
            if res != 'sat':
                continue
            xs2 = E.model_str(m2, x)
            today2 = ur.today_of(st, m2)
            steps2 = steps_for(calls, xs2)
            real2 = ur.replay(steps2, today2)
            if real2 is None:
                continue
            routs2 = [decode_real(r) for r in real2]
            try:
                holds = pred(routs2)
            except Exception as e:
                holds = False
            if holds is None or holds is True:
                ur.divergence({'input': xs2, 'symbolic': 'obligation %s violated' % name, 'real': [(c.label, o.kind, common_repr(o.value)) for c, o in zip(calls, routs2)]})
                continue
            ur.violation({'module': modname, 'func': calls[-1].func if name is None else name.split(':')[0], 'options': json.dumps(opts, sort_keys=True) if opts else '',
                          'kind': name, 'witness': xs2, 'today': today2.isoformat() if today2 else None, 'steps': steps2,
                          'detail': '; '.join('%s -> %s' % (c.label, o.exc if o.kind != 'ret' else common_repr(o.value)) for c, o in zip(calls, routs2))[:400]})
    ur.res['interesting_paths'] = interesting
    if interesting == 0:
        ur.res['vacuous'] = True
    return ur.finish()


def _comparable(v):
    import decimal
    if isinstance(v, (str, int, bool, type(None), datetime.date, decimal.Decimal)):
        return True
    if isinstance(v, (list, tuple)):
        return all(_comparable(e) for e in v)
    if isinstance(v, dict):
        return all(_comparable(e) for e in v.values())
    return False


def common_repr(v):
    r = repr(v)
    return r if len(r) < 60 else r[:57] + '...'


def main_generic(prop, args, make_units, unit_fn, assumptions, bounds=None, budget=None):
    units = make_units(args.tier, set(args.module) if args.module else None)
    if args.tier != 'quick':
        units = common.plan_thorough(units, make_units('quick', set(args.module) if args.module else None))
    units = common.shuffle_units(units)
    rep = common.Report(prop, args.tier)
    rep.assumptions = assumptions
    rep.bounds = bounds or {}
    if units:
        rep.bounds.setdefault('per_unit', {k: units[0].get(k) for k in ('max_paths', 'timeout', 'query_timeout_ms', 'K')})
    deadline = time.time() + (budget or (common.QUICK_S if args.tier == 'quick' else common.THOROUGH_S))

    def progress(done, total, res):
        if args.verbose:
            u = res['unit']
            print('[%d/%d] %s %s L=%s %s %s int=%s unknown=%s div=%s' % (done, total, u['module'], u.get('options') or '', u['L'], res.get('outcomes', res.get('error', res.get('skipped'))),
                                                                        res.get('wall_s'), res.get('interesting_paths'), res.get('unknown'), res.get('divergences')), file=sys.stderr)
    hard = lambda u: u.get('timeout', 30) * 2 + 60
    for res in common.run_units(unit_fn, units, hard, progress, deadline):
        rep.add_unit(res)
    return rep.finish()
