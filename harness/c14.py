# C14: character clean-up never changes the value of a number (DESIGN.md section 5, C14)
#  (a) one symbolic character over all 1,114,112 code points through the real clean(): per-character clauses,
#      oracle = unicodedata tables of the running interpreter (decimal values, category Zs) as range tables
#  (b) symbolic strings x symbolic deletechars through the real clean(): order/count, deleted characters absent,
#      idempotence; reference = per-character image (itself the real clean() on one character) filtered by deletechars
#  (c) per module: an ASCII-spelled symbolic input x and the same input with ONE position (symbolic position) replaced by
#      a symbolic look-alike character whose clean-up image is the original character: validate() outcomes must agree
import importlib
import json
import sys
import time
import datetime
import unicodedata

import z3

from symx import engine as E
from symx.replay import step
from . import common
from .symrun import UnitResult, same_value

TODAY = datetime.date.today()   # C14 is not about the clock: symbolic runs and replays are pinned to the same date

ASSUMPTIONS = [
    'CPython 3.12.1 / Unicode 15.0.0: unicodedata.decimal() and category() of the running interpreter are the oracle',
    'engine models of dict.get / str.join / comprehension filters (symx/engine.py), validated per path by replaying a witness on the untransformed code',
    '(b): strings up to the stated length, deletechars up to the stated length, every character 0..0x10FFFF',
    '(c): the ASCII spelling is a string of ASCII characters of the explored length; exactly one position carries a look-alike',
]


def _z(c):
    return z3.IntVal(c) if isinstance(c, int) else c


def unit_char(unit):
    """(a) per-character clauses"""
    E.install(common.REPO)
    E.CONFIG['K'] = 8
    util = importlib.import_module('stdnum.util')
    ur = UnitResult(unit, max_samples=6)
    dec = E.table('decimal')
    zs = E.table('Zs')

    def body():
        s, chars = E.symstr(1, 'c')
        return chars[0], util.clean(s, '')
    for st, out in E.explore(body, max_paths=200, timeout=120):
        if st is None:
            ur.limit(out)
            break
        ur.path(st, out)
        if out[0] != 'ret':
            if out[0] == 'exc':
                ur.res['harness_errors'].append('clean() raised %r' % (out[1],))
            continue
        c, r = out[1]
        r = E.SStr.of(r)
        model = st.witness_model()
        if model is None:
            continue
        cs = chr(model.eval(c, model_completion=True).as_long())
        real = ur.replay([step('stdnum.util', 'clean', cs, '')])
        if real is None:
            continue
        if real[0]['kind'] != 'ret' or real[0]['value'] != E.model_str(model, r):
            ur.divergence({'input': cs, 'symbolic': E.model_str(model, r), 'real': real[0]})
            continue
        ur.sample({'char': 'U+%04X' % ord(cs), 'clean': real[0]['value'], 'tags': list(st.tags)})
        # length 1
        res, m2 = ur.obligation(st, len(r) == 1)
        if res == 'sat':
            _char_violation(ur, st, c, m2, 'length-changed')
            continue
        o = _z(r.chars[0])
        decval = z3.IntVal(-1)
        for lo, hi, base in dec:
            decval = z3.If(z3.And(c >= lo, c <= hi), c - base, decval)
        isd = lambda v: z3.And(v >= 48, v <= 57)
        isl = lambda v: z3.Or(z3.And(v >= 65, v <= 90), z3.And(v >= 97, v <= 122))
        clauses = [
            ('digit-from-non-digit-or-wrong-value', z3.Implies(z3.And(isd(o), o != c), decval == o - 48)),
            ('ascii-alnum-altered', z3.Implies(z3.Or(isd(c), isl(c)), o == c)),
            ('letter-produced', z3.Implies(isl(o), o == c)),
            ('non-space-separator-became-space', z3.Implies(z3.And(o == 32, c != 32), E.in_ranges(c, zs))),
            ('replaced-by-non-ascii', z3.Implies(o != c, o < 128)),
        ]
        for name, phi in clauses:
            # enumerate every violating code point on this path (blocking clauses), not just the first
            blocked = []
            for _ in range(64):
                res, m2 = ur.obligation(st, z3.Or([phi] + [c == b for b in blocked]) if blocked else phi)
                if res != 'sat':
                    break
                v = m2.eval(c, model_completion=True).as_long()
                blocked.append(v)
                _char_violation(ur, st, c, m2, name)
    return ur.finish()


def _char_violation(ur, st, c, m2, kind):
    cp = m2.eval(c, model_completion=True).as_long()
    cs = chr(cp)
    real = ur.replay([step('stdnum.util', 'clean', cs, '')])
    if real is None:
        return
    o = real[0].get('value')
    bad = False
    if real[0]['kind'] != 'ret' or not isinstance(o, str):
        bad = True
    elif len(o) != 1:
        bad = kind == 'length-changed'
    else:
        dv = unicodedata.decimal(cs, None)
        if kind == 'digit-from-non-digit-or-wrong-value':
            bad = o in '0123456789' and o != cs and dv != int(o)
        elif kind == 'ascii-alnum-altered':
            bad = cs.isascii() and cs.isalnum() and o != cs
        elif kind == 'letter-produced':
            bad = o.isascii() and o.isalpha() and o != cs
        elif kind == 'non-space-separator-became-space':
            bad = o == ' ' and cs != ' ' and unicodedata.category(cs) != 'Zs'
        elif kind == 'replaced-by-non-ascii':
            bad = o != cs and not o.isascii()
    if bad:
        ur.violation({'module': 'stdnum.util', 'func': 'clean', 'options': '', 'kind': kind, 'witness': cs,
                      'detail': 'U+%04X %s -> %r' % (cp, unicodedata.name(cs, '?'), o),
                      'steps': [step('stdnum.util', 'clean', cs, '')], 'frame': 'U+%04X' % cp})
    else:
        ur.divergence({'input': cs, 'symbolic': kind, 'real': real[0]})


def unit_str(unit):
    """(b) strings x deletechars"""
    L, D = unit['L'], unit['D']
    E.install(common.REPO)
    E.CONFIG['K'] = L + D + 2      # every deletion / non-ASCII combination is explored: no budget cuts here
    util = importlib.import_module('stdnum.util')
    ur = UnitResult(unit)

    def body():
        s, sc = E.symstr(L, 's')
        d, dc = E.symstr(D, 'd')
        if D == 0:
            d = ''
        r1 = util.clean(s, d)
        r2 = util.clean(r1, d)
        # reference: per-character images (real clean on one character), kept iff not in deletechars
        ref = []
        for ch in sc:
            m = E.SStr.of(util.clean(E.SStr([ch]), ''))
            if len(m) != 1:
                raise E.Unsupported('per-character image is not one character')
            if not E.RT.truth(E.contains(d, m)):
                ref.append(m.chars[0])
        return s, d, r1, r2, ref
    for st, out in E.explore(body, max_paths=unit['max_paths'], timeout=unit['timeout']):
        if st is None:
            ur.limit(out)
            break
        ur.path(st, out)
        if out[0] != 'ret':
            if out[0] == 'exc':
                ur.res['harness_errors'].append('clean() raised %r' % (out[1],))
            continue
        s, d, r1, r2, ref = out[1]
        model = st.witness_model()
        if model is None:
            continue
        ss, ds = E.model_str(model, s), E.model_str(model, d)
        real = ur.replay([step('stdnum.util', 'clean', ss, ds)])
        if real is None:
            continue
        if real[0]['kind'] != 'ret' or real[0]['value'] != E.model_str(model, r1):
            ur.divergence({'input': [ss, ds], 'symbolic': E.model_str(model, r1), 'real': real[0]})
            continue
        ur.sample({'s': ss, 'deletechars': ds, 'clean': real[0]['value']})
        r1s, r2s = E.SStr.of(r1), E.SStr.of(r2)
        obls = [('order-or-count-changed', r1s._eqz(E.SStr(ref)) if len(ref) == len(r1s) else z3.BoolVal(False)),
                ('not-idempotent', r1s._eqz(r2s))]
        if len(E.SStr.of(d)) and len(r1s):
            dch = E.SStr.of(d).chars
            obls.append(('deleted-character-present', z3.And([_z(a) != _z(b) for a in r1s.chars for b in dch])))
        for name, phi in obls:
            res, m2 = ur.obligation(st, phi)
            if res == 'sat':
                s2, d2 = E.model_str(m2, s), E.model_str(m2, d)
                _str_violation(ur, s2, d2, name)
    return ur.finish()


def _str_violation(ur, s2, d2, kind):
    steps = [step('stdnum.util', 'clean', s2, d2), step('stdnum.util', 'clean', {'$ref': 0}, d2)]
    steps[1]['args'][0] = {'$ref': 0}
    for ch in s2:
        steps.append(step('stdnum.util', 'clean', ch, ''))
    real = ur.replay(steps)
    if real is None:
        return
    bad = False
    if all(r['kind'] == 'ret' for r in real):
        r1, r2 = real[0]['value'], real[1]['value']
        imgs = [r['value'] for r in real[2:]]
        ref = ''.join(m for m in imgs if m not in d2)
        if kind == 'order-or-count-changed':
            bad = r1 != ref
        elif kind == 'not-idempotent':
            bad = r1 != r2
        else:
            bad = any(ch in d2 for ch in r1)
    else:
        bad = True
    if bad:
        ur.violation({'module': 'stdnum.util', 'func': 'clean', 'options': '', 'kind': kind, 'witness': [s2, d2], 'steps': steps,
                      'detail': 'clean(%r, %r) -> %r' % (s2, d2, real[0].get('value'))})
    else:
        ur.divergence({'input': [s2, d2], 'symbolic': kind, 'real': real[:2]})


def unit_module(unit):
    """(c) look-alike spelling validates like the ASCII spelling"""
    modname, L = unit['module'], unit['L']
    E.install(common.REPO)
    E.CONFIG['K'] = 1
    E.CONFIG['today_fixed'] = TODAY
    E.CONFIG['query_timeout_ms'] = unit.get('query_timeout_ms', 5000)
    mod = importlib.import_module(modname)
    util = importlib.import_module('stdnum.util')
    VE = sys.modules['stdnum.exceptions'].ValidationError
    ur = UnitResult(unit)
    cmap = util._char_map
    nonascii_keys = sorted(ord(k) for k, v in cmap.items() if ord(k) >= 128 and len(v) == 1 and len(k) == 1)

    def run(x):
        try:
            return ('ret', mod.validate(x))
        except VE as e:
            return ('verr', type(e).__name__)
        except Exception as e:
            return ('exc', type(e).__name__)

    def body():
        x, chars = E.symstr(L, 's', 0, 127)
        o1 = run(x)
        pos = E.symint('pos', 0, L - 1)
        la = z3.Int('lookalike')
        E.CUR.add(z3.Or([la == k for k in nonascii_keys]))
        # image of the look-alike under the real table must be the character it replaces
        img = z3.IntVal(0)
        for k in nonascii_keys:
            img = z3.If(la == k, ord(cmap[chr(k)]), img)
        E.CUR.add(z3.And([z3.Implies(pos.z == j, img == chars[j]) for j in range(L)]))
        y = E.SStr([z3.If(pos.z == j, la, chars[j]) for j in range(L)])
        # the one non-ASCII character of y is the look-alike: do not charge it to the exotic-event budget
        E.CONFIG['K'] = 2
        try:
            o2 = run(y)
        finally:
            E.CONFIG['K'] = 1
        return x, y, o1, o2
    nacc = 0
    for st, out in E.explore(body, max_paths=unit['max_paths'], timeout=unit['timeout']):
        if st is None:
            ur.limit(out)
            break
        ur.path(st, out)
        if out[0] != 'ret':
            continue
        x, y, o1, o2 = out[1]
        model = st.witness_model()
        if model is None:
            continue
        xs, ys = E.model_str(model, x), E.model_str(model, y)
        real = ur.replay([step(modname, 'validate', xs), step(modname, 'validate', ys)], TODAY)
        if real is None:
            continue

        def agrees(o, r):
            if o[0] == 'ret':
                return r['kind'] == 'ret' and same_value(E.model_val(model, o[1]), r) is not False
            return r['kind'] == 'exc' and r['type'] == o[1]
        if not agrees(o1, real[0]) or not agrees(o2, real[1]):
            ur.divergence({'input': [xs, ys], 'symbolic': [o1[0], o2[0]], 'real': real})
            continue
        if o1[0] == 'ret':
            nacc += 1
        ur.sample({'module': modname, 'ascii': xs, 'lookalike': ys, 'outcome': o1[0] if o1[0] != 'ret' else 'accepted'})
        # obligation: same outcome class and, when accepted, the same canonical value
        if o1[0] != o2[0] or (o1[0] != 'ret' and o1[1] != o2[1]):
            ur.res['obligations'] += 1
            r0, r1 = real
            if (r0['kind'], r0.get('type'), r0.get('value')) != (r1['kind'], r1.get('type'), r1.get('value')):
                ur.violation({'module': modname, 'func': 'validate', 'options': '', 'kind': 'lookalike-spelling-differs', 'witness': [xs, ys],
                              'steps': [step(modname, 'validate', xs), step(modname, 'validate', ys)],
                              'detail': 'validate(%r) -> %s, validate(%r) -> %s' % (xs, r0.get('value', r0.get('type')), ys, r1.get('value', r1.get('type')))})
            continue
        if o1[0] == 'ret':
            a, b = E.SStr.of(o1[1]), E.SStr.of(o2[1])
            phi = a._eqz(b)
            res, m2 = ur.obligation(st, phi)
            if res == 'sat':
                xs2, ys2 = E.model_str(m2, x), E.model_str(m2, y)
                real2 = ur.replay([step(modname, 'validate', xs2), step(modname, 'validate', ys2)], TODAY)
                if real2 and real2[0].get('value') != real2[1].get('value'):
                    ur.violation({'module': modname, 'func': 'validate', 'options': '', 'kind': 'lookalike-spelling-differs', 'witness': [xs2, ys2],
                                  'steps': [step(modname, 'validate', xs2), step(modname, 'validate', ys2)],
                                  'detail': '%r vs %r' % (real2[0].get('value'), real2[1].get('value'))})
                elif real2:
                    ur.divergence({'input': [xs2, ys2], 'symbolic': 'values differ', 'real': real2})
        else:
            ur.trivial_obligation()
    ur.res['accepting_paths'] = nacc
    return ur.finish()


def unit_corpus(unit):
    """(c') doctest-valid presentations of the module (concrete) with one symbolic position replaced by a symbolic look-alike"""
    modname = unit['module']
    E.install(common.REPO)
    E.CONFIG['K'] = 2
    E.CONFIG['today_fixed'] = TODAY
    E.CONFIG['query_timeout_ms'] = unit.get('query_timeout_ms', 5000)
    mod = importlib.import_module(modname)
    util = importlib.import_module('stdnum.util')
    VE = sys.modules['stdnum.exceptions'].ValidationError
    ur = UnitResult(unit)
    cmap = util._char_map
    nonascii_keys = sorted(ord(k) for k, v in cmap.items() if ord(k) >= 128 and len(v) == 1 and len(k) == 1)
    images = set(cmap[chr(k)] for k in nonascii_keys)
    t_end = time.time() + unit['timeout']
    by_image = {}
    for k in nonascii_keys:
        by_image.setdefault(cmap[chr(k)], []).append(k)
    work = []
    for raw, v in unit['literals']:
        for j, ch in enumerate(raw):
            if ch in images:
                work.append((raw, v, j))
    # separators and punctuation first (that is where presentation handling lives), then round-robin over the literals
    work.sort(key=lambda w: (w[0][w[2]].isalnum(), w[2]))
    for raw, v, j in work:
        if time.time() > t_end:
            ur.res['limit'] = 'time'
            break
        keys = by_image[raw[j]]

        def body():
            # one concrete position of a doctest-valid presentation carries a symbolic look-alike of the character there
            la = z3.Int('lookalike')
            E.CUR.add(z3.Or([la == k for k in keys]))
            y = E.SStr([la if i == j else ord(raw[i]) for i in range(len(raw))])
            try:
                return y, ('ret', mod.validate(y))
            except VE as e:
                return y, ('verr', type(e).__name__)
            except Exception as e:
                return y, ('exc', type(e).__name__)
        for st, out in E.explore(body, max_paths=100, timeout=max(1, t_end - time.time())):
            if st is None:
                ur.limit(out)
                break
            ur.path(st, out)
            if out[0] != 'ret':
                continue
            y, o = out[1]
            model = st.witness_model()
            if model is None:
                continue
            ys = E.model_str(model, y)
            real = ur.replay([step(modname, 'validate', ys)], TODAY)
            if real is None:
                continue
            r0 = real[0]
            sym_ok = o[0] == 'ret'
            if (r0['kind'] == 'ret') != sym_ok or (sym_ok and same_value(E.model_val(model, o[1]), r0) is False):
                ur.divergence({'input': ys, 'symbolic': o[0], 'real': r0})
                continue
            ur.sample({'module': modname, 'ascii': raw, 'lookalike': ys, 'outcome': o[0]})
            # obligation: accepted with the value of the ASCII spelling
            if not sym_ok:
                ur.res['obligations'] += 1
                ur.violation({'module': modname, 'func': 'validate', 'options': '', 'kind': 'lookalike-spelling-differs', 'witness': [raw, ys],
                              'steps': [step(modname, 'validate', raw), step(modname, 'validate', ys)],
                              'detail': 'validate(%r) -> %r but validate(%r) raises %s' % (raw, v, ys, r0.get('type'))})
                continue
            res, m2 = ur.obligation(st, E.SStr.of(o[1])._eqz(v))
            if res == 'sat':
                ys2 = E.model_str(m2, y)
                real2 = ur.replay([step(modname, 'validate', ys2)], TODAY)
                if real2 and real2[0].get('value') != v:
                    ur.violation({'module': modname, 'func': 'validate', 'options': '', 'kind': 'lookalike-spelling-differs', 'witness': [raw, ys2],
                                  'steps': [step(modname, 'validate', raw), step(modname, 'validate', ys2)],
                                  'detail': 'validate(%r) -> %r but validate(%r) -> %r' % (raw, v, ys2, real2[0].get('value', real2[0].get('type')))})
                elif real2:
                    ur.divergence({'input': ys2, 'symbolic': 'value differs', 'real': real2[0]})
    return ur.finish()


def unit_fn(unit):
    return {'char': unit_char, 'str': unit_str, 'module': unit_module, 'corpus': unit_corpus}[unit['kind']](unit)


def main(args):
    tier = args.tier
    units = [{'kind': 'char', 'module': 'stdnum.util', 'L': 1, 'prio': -1}]
    if tier == 'quick':
        shapes = [(1, 1), (2, 1), (2, 2), (3, 1), (3, 0)]
        cap = dict(max_paths=4000, timeout=100)
    else:
        shapes = [(l, d) for l in range(0, 6) for d in range(0, 4) if l + d <= 7]
        cap = dict(max_paths=100000, timeout=900)
    for l, d in shapes:
        units.append(dict(kind='str', module='stdnum.util', L=l, D=d, prio=-1, **cap))
    intro = common.introspect()
    # (c) applies to formats that clean their input, i.e. modules exposing compact(); the generic check-digit algorithm
    # modules validate caller-supplied strings over caller-supplied alphabets verbatim and have no clean-up step
    mods = sorted(m for m in intro if 'compact' in intro[m]['functions'])
    if args.module:
        mods = [m for m in mods if m in args.module]
    elif tier == 'quick':
        # every module once per 4 seeds; the fixed core below on every run
        core = ['stdnum.isbn', 'stdnum.ean', 'stdnum.iban', 'stdnum.grid', 'stdnum.imei', 'stdnum.nl.bsn', 'stdnum.isin', 'stdnum.cusip']
        rot = [m for i, m in enumerate(mods) if i % 4 == common.seed() % 4]
        mods = sorted(set(core + rot))
    for m in mods:
        for L in common.lengths_for(intro[m], tier):
            if L < 1:
                continue
            u = dict(kind='module', module=m, L=L)
            u.update(dict(max_paths=1500, timeout=25, query_timeout_ms=5000) if tier == 'quick' else dict(max_paths=30000, timeout=300, query_timeout_ms=30000))
            units.append(u)
    for m in sorted(intro):
        if (args.module and m not in args.module) or 'compact' not in intro[m]['functions']:
            continue
        lits = intro[m]['valid']
        if tier == 'quick':
            # the presentations with the most separators first; 8 per module
            lits = sorted(lits, key=lambda rv: -(len(rv[0]) - len(rv[1])))[:8]
        if lits:
            units.append(dict(kind='corpus', module=m, L=0, literals=lits, timeout=20 if tier == 'quick' else 300))
    if getattr(args, 'units_only', False):
        return units
    if tier != 'quick':
        # thorough = the quick tier's units first (larger caps), then everything else while the budget lasts
        import copy
        qa = copy.copy(args)
        qa.tier, qa.units_only = 'quick', True
        units = common.plan_thorough(units, main(qa))
    rep = common.Report('C14', tier)
    rep.assumptions = ASSUMPTIONS
    rep.bounds = {'char': 'one character over 0..0x10FFFF, deletechars empty (exhaustive over code points by symbolic ranges)',
                  'str': [list(s) for s in shapes], 'module_units': len([u for u in units if u['kind'] == 'module']),
                  'module_rotation': 'quick tier: 8 fixed modules + every 4th module selected by VERIF_SEED; thorough: all modules, all corpus lengths'}
    deadline = time.time() + (common.QUICK_S if tier == 'quick' else common.THOROUGH_S)

    def progress(done, total, res):
        if args.verbose:
            u = res['unit']
            print('[%d/%d] %s %s L=%s %s %s' % (done, total, u['kind'], u['module'], u['L'], res.get('outcomes', res.get('error', res.get('skipped'))), res.get('wall_s')), file=sys.stderr)
    for res in common.run_units(unit_fn, common.shuffle_units(units), 2 * cap['timeout'] + 60, progress, deadline):
        rep.add_unit(res)
    return rep.finish()
