# per-unit bookkeeping for symbolic explorations: witnesses, replay against the pristine code, obligations
import datetime
import json
import time

import z3

from symx import engine as E
from symx.replay import Replayer, step, Ref
from . import common


class UnitResult:
    def __init__(self, unit, max_samples=3):
        self.unit = unit
        self.res = {'unit': unit, 'states': 0, 'transitions': 0, 'traces_validated_against_impl': 0, 'obligations': 0,
                    'discharged': 0, 'unknown': 0, 'divergences': 0, 'unsupported_paths': 0, 'cut_paths': 0,
                    'cuts': {}, 'unsupported': {}, 'violations': [], 'samples': [], 'outcomes': {}, 'harness_errors': [],
                    'divergence_samples': []}
        self.replayer = Replayer(common.REPO)
        self.max_samples = max_samples
        self.t0 = time.time()
        self.stats0 = dict(E.STATS)

    # -- path accounting
    def path(self, st, out):
        r = self.res
        r['states'] += 1
        r['transitions'] += len(st.decisions)
        for t in st.cuts:
            r['cuts'][t] = r['cuts'].get(t, 0) + 1
        if st.unknown:
            r['unknown'] += st.unknown
        kind = out[0]
        if kind == 'abort':
            e = out[1]
            k = e.kind
            if k == 'unsupported':
                r['unsupported_paths'] += 1
                msg = str(e)[:80] + ' @ ' + _site(e)
                r['unsupported'][msg] = r['unsupported'].get(msg, 0) + 1
            elif k == 'cut':
                r['cut_paths'] += 1
            key = 'abort:' + k
        elif kind == 'exc':
            key = 'exc:' + type(out[1]).__name__
        else:
            key = 'ret'
        r['outcomes'][key] = r['outcomes'].get(key, 0) + 1

    def outcome(self, key):
        self.res['outcomes'][key] = self.res['outcomes'].get(key, 0) + 1

    def limit(self, lim):
        self.res['limit'] = lim.remaining

    # -- solver obligations
    def obligation(self, st, phi):
        """phi must hold on the whole path: returns ('unsat', None) | ('sat', model) | ('unknown', None)"""
        self.res['obligations'] += 1
        r, m = st.check_valid(phi)
        if r == 'unsat':
            self.res['discharged'] += 1
        elif r == 'unknown':
            self.res['unknown'] += 1
        return r, m

    def trivial_obligation(self):
        self.res['obligations'] += 1
        self.res['discharged'] += 1

    # -- replay
    def replay(self, steps, today=None):
        try:
            out = self.replayer.run(steps, today)
        except RuntimeError as e:
            self.res['harness_errors'].append(str(e)[:200])
            return None
        self.res['traces_validated_against_impl'] += 1
        return out

    def today_of(self, st, model):
        d = st.notes.get('today')
        if d is None:
            return None
        return d.concrete(model)

    def divergence(self, info):
        self.res['divergences'] += 1
        if len(self.res['divergence_samples']) < 5:
            self.res['divergence_samples'].append(info)

    def sample(self, s):
        if len(self.res['samples']) < self.max_samples:
            self.res['samples'].append(s)

    def violation(self, v):
        self.res['violations'].append(v)

    def finish(self):
        self.replayer.close()
        r = self.res
        r['wall_s'] = round(time.time() - self.t0, 2)
        r['solver_s'] = round(E.STATS['solver_s'] - self.stats0['solver_s'], 2)
        r['solver_queries'] = E.STATS['checks'] - self.stats0['checks']
        r['functions'] = sorted(E.ENCODED)
        return r


def _site(e):
    import traceback
    tb = traceback.extract_tb(e.__traceback__)
    for f in reversed(tb):
        if f.filename.startswith(common.REPO) or '/spec/' in f.filename:
            return '%s:%d' % (f.filename.replace(common.REPO + '/', ''), f.lineno)
    return '?'


def same_value(sym_concrete, real):
    """compare a model-evaluated symbolic return value with the worker's encoded real value"""
    t = real.get('type')
    v = real.get('value')
    if isinstance(sym_concrete, bool) or sym_concrete is None or isinstance(sym_concrete, (int, str)):
        return type(sym_concrete).__name__ == t and sym_concrete == v
    if isinstance(sym_concrete, datetime.date):
        return t == 'date' and sym_concrete.isoformat() == v
    if isinstance(sym_concrete, (list, tuple)):
        return t == type(sym_concrete).__name__ and len(v) == len(sym_concrete) and all(same_value(a, b) for a, b in zip(sym_concrete, v))
    if isinstance(sym_concrete, dict):
        if t != 'dict' or len(v) != len(sym_concrete):
            return False
        for (rk, rv), (sk, sv) in zip(v, sym_concrete.items()):
            if not same_value(sk, rk) or not same_value(sv, rv):
                return False
        return True
    return None   # not comparable (opaque objects): no verdict


def jsonable(x):
    try:
        json.dumps(x)
        return x
    except Exception:
        return repr(x)
