# C01: see DESIGN.md section 5 (C01) and harness/vfamily.py
from . import vfamily_main


def main(args):
    return vfamily_main.main('C01', args)
