# C17: single typing errors in check-digit protected identifiers are rejected (DESIGN.md section 5, C17)
# For a symbolic valid number v (validate(v) returns on the path) and every position i: validate(v[i := x]) with x of the same
# ASCII class as v_i, x != v_i, must raise; for the formats that promise it, also every swap of two adjacent different digits.
# Both runs are on the real validate(); they share all variables but the changed positions (paired run, symx/pairs.py).
import importlib
import json
import sys
import time

import z3

from symx import engine as E
from symx import pairs
from symx.replay import step
from . import common
from .symrun import UnitResult

DIG = '0123456789'
UP = 'ABCDEFGHIJKLMNOPQRSTUVWXYZ'

# (module, fixed prefix or '', lengths quick, lengths thorough, transposition promised?)
SCOPE = [
    ('stdnum.isbn', '', [10, 13], [10, 13], 'len10'),
    ('stdnum.ean', '', [8, 13], [8, 12, 13, 14], False),
    ('stdnum.issn', '', [8], [8], True),
    ('stdnum.ismn', '', [13], [10, 13], False),
    ('stdnum.imei', '', [15], [15], False),
    ('stdnum.isni', '', [16], [16], True),
    ('stdnum.lei', '', [20], [20], True),
    ('stdnum.iso11649', 'RF', [8], [6, 8, 12, 16, 25], True),
    ('stdnum.grid', '', [18], [18], False),
    ('stdnum.iban', 'NO', [15], [15], True),
    ('stdnum.iban', 'BE', [16], [16], True),
    ('stdnum.iban', 'NL', [], [18], True),
    ('stdnum.iban', 'DE', [], [22], True),
    ('stdnum.iban', 'GB', [], [22], True),
    ('stdnum.iban', 'FR', [], [27], True),
    ('stdnum.ca.sin', '', [9], [9], False),
    ('stdnum.fr.siren', '', [9], [9], False),
    ('stdnum.il.idnr', '', [9], [9], False),
    ('stdnum.se.orgnr', '', [10], [10], False),
    ('stdnum.in_.aadhaar', '', [12], [12], True),
    ('stdnum.in_.vid', '', [16], [16], True),
    ('stdnum.hr.oib', '', [11], [11], False),
    ('stdnum.de.idnr', '', [11], [11], False),
    ('stdnum.de.vat', '', [9], [9], False),
]

ASSUMPTIONS = [
    'the valid number is a string over ASCII digits and upper-case letters of one of the explored lengths (IBAN / ISO 11649: with the stated fixed prefix)',
    '"same kind" = digit for digit, upper-case letter for upper-case letter; "rejected" = validate() raises',
    'transpositions: two adjacent different DIGITS, only for ISBN-10, ISSN, ISNI, IBAN, LEI, ISO 11649 and the Verhoeff-protected Aadhaar / VID numbers',
    'lemma instances are each proven valid by a separate solver query (symx/pairs.py); per-path caps as reported',
]


def unit_fn(unit):
    modname, prefix, L, kind = unit['module'], unit['prefix'], unit['L'], unit['kind']
    if kind == 'check-subst':
        kind = 'subst'
    E.install(common.REPO)
    E.CONFIG['K'] = 0
    E.CONFIG['cutpoints'] = True
    E.CONFIG['cut_hard'] = True
    E.CONFIG['query_timeout_ms'] = unit.get('query_timeout_ms', 15000)
    mod = importlib.import_module(modname)
    VE = sys.modules['stdnum.exceptions'].ValidationError
    ur = UnitResult(unit, max_samples=2)
    t_end = time.time() + unit['timeout']

    opts = unit.get('options') or {}

    def valid(s):
        try:
            mod.validate(s, **opts)
            return True
        except VE:
            return False

    positions = unit['positions']
    nvalid = 0
    wtries = [0]
    for i in positions:
        if time.time() > t_end:
            ur.res['limit'] = len(positions) - positions.index(i)
            break

        def body(i=i):
            st = E.CUR
            v, vc = E.symstr_alpha(L - len(prefix), DIG + UP, 'v')
            chars = [ord(c) for c in prefix] + vc
            i0 = len(st.cutrec)
            if not valid(E.SStr(chars)):
                raise E.Assume('not a valid number')
            i1 = len(st.cutrec)
            ci = chars[i]
            isd = lambda c: z3.And(c >= 48, c <= 57)
            isl = lambda c: z3.And(c >= 65, c <= 90)
            if kind == 'subst':
                x = E.symchar_in('x', unit.get('subst_alphabet') or (DIG + UP))
                E.assume(x != ci)
                if not unit.get('subst_alphabet'):
                    E.assume(z3.Or(z3.And(isd(ci), isd(x)), z3.And(isl(ci), isl(x))))
                chars2 = chars[:i] + [x] + chars[i + 1:]
            else:
                cj = chars[i + 1]
                E.assume(z3.And(ci != cj, isd(ci), isd(cj)))
                chars2 = chars[:i] + [cj, ci] + chars[i + 2:]
            pairs.refine(st, [c for c in set(chars + chars2) if not isinstance(c, int)])
            ok2 = valid(E.mk(chars2))
            i2 = len(st.cutrec)
            pairs.add_lemmas(st, st.cutrec[i0:i1], st.cutrec[i1:i2])
            return E.SStr(chars), E.SStr.of(E.mk(chars2)), ok2
        for st, out in E.explore(body, max_paths=unit['max_paths'], timeout=max(1, t_end - time.time())):
            if st is None:
                ur.limit(out)
                break
            ur.path(st, out)
            if out[0] == 'exc':
                continue        # a foreign exception is C01's business; it is still a rejection
            if out[0] != 'ret':
                continue
            a, b, ok2 = out[1]
            res, m2 = ur.obligation(st, z3.Not(E.zbool(ok2)))
            if res == 'unsat':
                nvalid += 1
                if len(ur.res['samples']) < 2 and wtries[0] < 3:
                    wtries[0] += 1
                    m = st.witness_model()
                    if m is not None:
                        ur.sample({'module': modname, 'valid': E.model_str(m, a), 'changed': E.model_str(m, b), 'position': i, 'kind': kind, 'verdict': 'rejected on the whole path'})
            elif res == 'sat':
                sa, sb = E.model_str(m2, a), E.model_str(m2, b)
                real = ur.replay([step(modname, 'validate', sa, **opts), step(modname, 'validate', sb, **opts)])
                if real is None:
                    continue
                if real[0]['kind'] == 'ret' and real[1]['kind'] == 'ret':
                    ur.violation({'module': modname, 'func': 'validate', 'options': json.dumps(opts, sort_keys=True) if opts else '', 'kind': 'undetected-' + ('substitution' if kind == 'subst' else 'transposition'),
                                  'witness': [sa, sb], 'detail': 'both accepted; position %d' % i, 'frame': 'L=%d' % L,
                                  'steps': [step(modname, 'validate', sa, **opts), step(modname, 'validate', sb, **opts)]})
                else:
                    ur.divergence({'input': [sa, sb], 'symbolic': 'both valid', 'real': real})
    if nvalid == 0 or not ur.res['samples']:
        ur.res['vacuous'] = True     # no valid number synthesised and confirmed for this unit
    r = ur.finish()
    r['lemmas'] = dict(pairs.STATS)
    r['valid_paths'] = nvalid
    return r


def main(args):
    tier = args.tier
    units = []
    for modname, prefix, lq, lt, transp in SCOPE:
        if args.module and modname not in args.module:
            continue
        for L in (lq if tier == 'quick' else lt):
            kinds = ['subst']
            if transp is True or (transp == 'len10' and L == 10):
                kinds.append('transp')
            for k in kinds:
                allpos = list(range(len(prefix), L)) if k == 'subst' else list(range(len(prefix), L - 1))
                chunk = 4 if L >= 15 else (6 if L >= 11 else 20)
                from spec.options import OPTIONS
                for c0, o in [(c0, o) for o in [{}] + OPTIONS.get(modname, []) for c0 in range(0, len(allpos), chunk)]:
                    if modname == 'stdnum.iban' and o:
                        continue
                    u = {'module': modname, 'prefix': prefix, 'L': L, 'kind': k, 'positions': allpos[c0:c0 + chunk], 'options': o}
                    u.update(dict(max_paths=300, timeout=150, query_timeout_ms=15000) if tier == 'quick' else dict(max_paths=5000, timeout=1500, query_timeout_ms=120000))
                    units.append(u)
    if getattr(args, 'units_only', False):
        return units
    if tier != 'quick':
        # thorough = the quick tier's units first (larger caps), then everything else while the budget lasts
        import copy
        qa = copy.copy(args)
        qa.tier, qa.units_only = 'quick', True
        units = common.plan_thorough(units, main(qa))
    rep = common.Report('C17', tier)
    rep.assumptions = ASSUMPTIONS
    rep.bounds = {'scope': [[m, p, lq if tier == 'quick' else lt] for m, p, lq, lt, t in SCOPE]}
    deadline = time.time() + (common.QUICK_S if tier == 'quick' else common.THOROUGH_S)
    lem = {'proved': 0, 'failed': 0, 'cached': 0, 'instances': 0, 'time_s': 0.0, 'unknown': 0}

    def progress(done, total, res):
        if args.verbose:
            u = res['unit']
            print('[%d/%d] %s %s L=%s %s %s %s unknown=%s valid_paths=%s limit=%s' % (done, total, u['module'], u['prefix'], u['L'], u['kind'], res.get('outcomes', res.get('error', res.get('skipped'))), res.get('wall_s'), res.get('unknown'), res.get('valid_paths'), res.get('limit')), file=sys.stderr)
    for res in common.run_units(unit_fn, (units if tier == 'quick' else sorted(units, key=common._prio)), (lambda u: u.get('timeout', 60) * 2 + 60), progress, deadline):
        for k in lem:
            lem[k] += res.get('lemmas', {}).get(k, 0)
        rep.add_unit(res)
    rep.extra['lemmas'] = lem
    return rep.finish()
