# ./check replay <file>: re-run a recorded counterexample against the untouched code in the pristine interpreter
import json
import sys

from symx.replay import Replayer, step, Ref
from . import common


def main():
    path = sys.argv[1]
    v = json.load(open(path, encoding='utf-8'))
    opts = json.loads(v['options']) if v.get('options') else {}
    r = Replayer(common.REPO)
    if 'steps' in v:
        steps = v['steps']
    else:
        steps = [step(v['module'], 'validate', v['witness'], **opts)]
        if v.get('func') == 'is_valid':
            steps.append(step(v['module'], 'is_valid', v['witness'], **opts))
        if v.get('property') == 'C02':
            steps.append(step(v['module'], 'validate', Ref(0), **opts))
    out = r.run(steps, v.get('today'))
    r.close()
    print('property %s  %s' % (v.get('property'), common.describe(v)))
    for s, o in zip(steps, out):
        print('  %s.%s(%s%s) -> %s' % (s['mod'], s['func'], ', '.join(json.dumps(a) for a in s['args']),
                                      ''.join(', %s=%s' % (k, json.dumps(x)) for k, x in s['kwargs'].items()), json.dumps(o)))
    return 0


if __name__ == '__main__':
    sys.exit(main())
