# C11: every shipped registry entry is well-formed and usable by its consumer (DESIGN.md section 5, C11)
#  grammar   : ground facts (evaluated, not solved): the real reader's structure of every file equals an independent reading of
#              the grammar (spec/numdb_ref.parse_file); equal-length ordered endpoints; consistent nesting
#  reach     : per entry, a sat query on the real NumDB.info(): a number whose prefix path is pinned to the entry's ancestors and
#              whose head is symbolic within [low, high] must be able to yield this entry's properties at its level
#  consumers : IBAN country structures (exists a BBAN with check digits that validates), ISBN ranges (for all numbers in the
#              range split() gives five non-empty parts), nace / cfi / postleitzahl / oui entries (for all tails the consumer
#              returns the entry's data)
import importlib
import json
import os
import sys
import time

import z3

from symx import engine as E
from symx.replay import step
from . import common
from .symrun import UnitResult
from .c10 import registries, _HELPER

ASSUMPTIONS = [
    'grammar facts are evaluated concretely on all 17 files (no free variable); reported as ground facts, not as solver queries',
    'reachability / consumer queries: quick tier covers all entries of the small registries and a seed-rotated sample of the large ones (oui, imsi, cn/loc, nz/banks, at/postleitzahl, isbn, iban); thorough covers larger samples',
    'GS1 application identifiers: every identifier is run through the C16 round-trip unit (value of maximal length, both separators, parentheses on/off)',
    'update/*.py need the network and are not run',
]


def _flatten(tree, path=()):
    """yield (ancestor path as tuple of entries, entry)"""
    for e in tree:
        yield path, e
        yield from _flatten(e[4], path + (e,))


def unit_grammar(unit):
    name = unit['registry']
    ur = UnitResult(unit)
    from spec import numdb_ref
    from .relfam import _dec
    text = open(os.path.join(common.REPO, 'stdnum', name + '.dat'), encoding='utf-8').read()
    facts = 0
    bad = []
    try:
        want = numdb_ref.parse_file(text)
    except Exception as e:
        want = None
        bad.append(('line-not-understood-completely', 'reference grammar rejects the file: %s' % e))
    real = ur.replay([{'mod': 'numdb_probe', 'file': _HELPER, 'func': 'probe_read', 'args': [text], 'kwargs': {}}])
    got = _dec(real[0]) if real and real[0]['kind'] == 'ret' else None
    if got is None:
        bad.append(('reader-failed', str(real[0] if real else None)[:200]))
    if want is not None and got is not None:
        # compare entry by entry so that the differing line can be named
        def walk(a, b, where):
            nonlocal facts
            if len(a) != len(b):
                bad.append(('line-not-understood-completely', '%s: reader has %d entries, grammar %d' % (where or 'top level', len(a), len(b))))
                return
            for x, y in zip(a, b):
                facts += 1
                if x[:3] != y[:3]:
                    bad.append(('line-not-understood-completely', '%s: range %r read as %r' % (where, y[1:3], x[1:3])))
                elif x[3] != y[3]:
                    bad.append(('line-not-understood-completely', '%s range %s-%s: properties %r, grammar gives %r' % (where, y[1], y[2], x[3], y[3])))
                walk(x[4], y[4], (where + '/' if where else '') + y[1])
        walk(got, want, '')
        for path, e in _flatten(want):
            facts += 1
            if len(e[1]) != len(e[2]):
                bad.append(('endpoints-of-different-length', '%s-%s' % (e[1], e[2])))
            elif e[1] > e[2]:
                bad.append(('endpoints-not-ordered', '%s-%s' % (e[1], e[2])))
        # consistent nesting: indentation only ever increases by one level relative to an existing parent
        last = 0
        seen = {0}
        for i, line in enumerate(text.split('\n')):
            if not line.strip() or line.startswith('#'):
                continue
            ind = len(line) - len(line.lstrip(' '))
            facts += 1
            if ind > last:
                seen.add(ind)
            elif ind not in seen:
                bad.append(('inconsistent-nesting', 'line %d: indentation %d was never opened' % (i + 1, ind)))
            last = ind
            # consumer-level structure: isbn.split() reads exactly three levels (EAN.UCC prefix / registration group /
            # registrant range, as in the ISBN RangeMessage); a deeper entry would be silently dropped from the hyphenation
            if name in CONSUMER_DEPTH and ind > CONSUMER_DEPTH[name] - 1:
                bad.append(('entry-deeper-than-the-consumer-reads', 'line %d: nesting level %d, %s reads %d levels' % (i + 1, ind + 1, name, CONSUMER_DEPTH[name])))
    ur.res['states'] = 1
    ur.res['transitions'] = facts
    ur.res['obligations'] = facts
    ur.res['discharged'] = facts - len(bad)
    ur.res['ground_facts'] = facts
    ur.sample({'registry': name, 'entries': sum(1 for _ in _flatten(want)) if want else 0, 'ground_facts': facts})
    for kind, detail in bad[:20]:
        ur.violation({'module': 'stdnum.numdb', 'func': 'read', 'options': name, 'kind': kind, 'witness': name, 'detail': detail[:300], 'frame': detail[:60],
                      'steps': [{'mod': 'numdb_probe', 'file': _HELPER, 'func': 'probe_shipped', 'args': [name, ''], 'kwargs': {}}]})
    return ur.finish()


CONSUMER_DEPTH = {'isbn': 3}


def unit_reach(unit):
    name = unit['registry']
    E.install(common.REPO)
    E.CONFIG['K'] = 9
    numdb = importlib.import_module('stdnum.numdb')
    ur = UnitResult(unit, max_samples=2)
    db = numdb.get(name)
    t_end = time.time() + unit['timeout']
    for path_lows, low, high, props in unit['entries']:
        if time.time() > t_end:
            ur.res['limit'] = 1
            break
        depth = len(path_lows)

        def body():
            # common prefix of low/high concrete, differing positions symbolic within the range
            n = len(low)
            cp = 0
            while cp < n and low[cp] == high[cp]:
                cp += 1
            head = [ord(c) for c in low[:cp]]
            if cp < n:
                s, chars = E.symstr_alpha(n - cp, ''.join(chr(c) for c in range(32, 127)), 'h')
                head += chars
                hs = E.SStr(head)
                E.assume(E.zbool(E.RT.cmp('LtE', low, hs)))
                E.assume(E.zbool(E.RT.cmp('LtE', hs, high)))
            q = E.mk([ord(c) for c in ''.join(path_lows)] + head)
            return q, db.info(q)
        found = False
        complete = True
        for st, out in E.explore(body, max_paths=400, timeout=max(1, min(30, t_end - time.time()))):
            if st is None:
                complete = False
                break
            ur.path(st, out)
            if out[0] != 'ret':
                continue
            q, res = out[1]
            if len(res) > depth and all(res[depth][1].get(k) == v for k, v in props.items()) and len(E.SStr.of(res[depth][0])) == len(low):
                m = st.witness_model()
                if m is not None:
                    found = True
                    qs = E.model_str(m, q)
                    real = ur.replay([{'mod': 'numdb_probe', 'file': _HELPER, 'func': 'probe_shipped', 'args': [name, qs], 'kwargs': {}}])
                    ok = False
                    if real and real[0]['kind'] == 'ret':
                        from .relfam import _dec
                        got = _dec(real[0])
                        ok = len(got) > depth and all(got[depth][1].get(k) == v for k, v in props.items())
                    if not ok:
                        ur.divergence({'input': [name, qs], 'symbolic': 'entry reached', 'real': real})
                        found = False
                    else:
                        ur.sample({'registry': name, 'entry': '%s-%s' % (low, high), 'witness': qs})
                    break
        ur.res['obligations'] += 1
        if found:
            ur.res['discharged'] += 1
        elif not complete:
            ur.res['unknown'] += 1      # exploration cut short: inconclusive, never a violation
        else:
            ur.violation({'module': 'stdnum.numdb', 'func': 'info', 'options': name, 'kind': 'entry-unreachable', 'witness': '/'.join(path_lows + [low]),
                          'frame': '%s:%s' % (name, '/'.join(path_lows + ['%s-%s' % (low, high)])),
                          'detail': 'no number inside %s-%s (under %s) yields this entry\'s properties %r' % (low, high, '/'.join(path_lows) or 'top level', props),
                          'steps': [{'mod': 'numdb_probe', 'file': _HELPER, 'func': 'probe_shipped', 'args': [name, ''.join(path_lows) + low], 'kwargs': {}}]})
    return ur.finish()


def unit_iban(unit):
    E.install(common.REPO)
    E.CONFIG['K'] = 0
    E.CONFIG['query_timeout_ms'] = 6000
    iban = importlib.import_module('stdnum.iban')
    VE = sys.modules['stdnum.exceptions'].ValidationError
    ur = UnitResult(unit, max_samples=3)
    t_end = time.time() + unit['timeout']
    for cc, length, bban in unit['countries']:
        if time.time() > t_end:
            ur.res['limit'] = 1
            break

        def body():
            s, chars = E.symstr_alpha(length - 2, '0123456789ABCDEFGHIJKLMNOPQRSTUVWXYZ', 'b')
            x = E.SStr([ord(c) for c in cc] + chars)
            try:
                return x, iban.validate(x, check_country=False)
            except VE:
                raise E.Assume('rejected')
        found = None
        complete = True
        for st, out in E.explore(body, max_paths=60, timeout=max(1, min(40, t_end - time.time()))):
            if st is None:
                complete = False
                break
            ur.path(st, out)
            if out[0] != 'ret':
                continue
            m = st.witness_model()
            if m is None:
                continue
            xs = E.model_str(m, out[1][0])
            real = ur.replay([step('stdnum.iban', 'validate', xs, check_country=False)])
            if real and real[0]['kind'] == 'ret':
                found = xs
                ur.sample({'country': cc, 'structure': bban, 'witness': xs})
                break
            ur.divergence({'input': xs, 'symbolic': 'accepted', 'real': real})
        ur.res['obligations'] += 1
        if found:
            ur.res['discharged'] += 1
        elif not complete or ur.res.get('limit') or time.time() > t_end or ur.res['unknown']:
            ur.res['unknown'] += 1
        else:
            ur.violation({'module': 'stdnum.iban', 'func': 'validate', 'options': 'check_country=False', 'kind': 'country-structure-admits-no-number', 'witness': cc,
                          'frame': 'iban.dat:%s' % cc, 'detail': 'no %d-character IBAN for %s (bban=%s) was found valid' % (length, cc, bban),
                          'steps': [step('stdnum.iban', 'validate', cc + '0' * (length - 2), check_country=False)]})
    return ur.finish()


def unit_isbn(unit):
    E.install(common.REPO)
    E.CONFIG['K'] = 0
    isbn = importlib.import_module('stdnum.isbn')
    ur = UnitResult(unit, max_samples=3)
    t_end = time.time() + unit['timeout']
    for ean, group, low, high in unit['ranges']:
        if time.time() > t_end:
            ur.res['limit'] = 1
            break
        fixed = ean + group
        n = len(low)
        rest = 12 - len(fixed) - n
        if rest < 1:
            continue

        def body():
            cp = 0
            while cp < n and low[cp] == high[cp]:
                cp += 1
            head = [ord(c) for c in low[:cp]]
            if cp < n:
                s, chars = E.symstr(n - cp, 'r', 48, 57)
                head += chars
                hs = E.SStr(head)
                E.assume(E.zbool(E.RT.cmp('LtE', low, hs)))
                E.assume(E.zbool(E.RT.cmp('LtE', hs, high)))
            t, tc = E.symstr(rest + 1, 't', 48, 57)
            x = E.mk([ord(c) for c in fixed] + head + tc)
            return x, isbn.split(x)
        for st, out in E.explore(body, max_paths=300, timeout=max(1, min(30, t_end - time.time()))):
            if st is None:
                ur.limit(out)
                break
            ur.path(st, out)
            if out[0] == 'exc':
                ur.res['harness_errors'].append('isbn.split raised %r' % (out[1],))
                continue
            if out[0] != 'ret':
                continue
            x, parts = out[1]
            ok = len(parts) == 5 and all(len(p) > 0 for p in parts)
            ur.res['obligations'] += 1
            if ok:
                ur.res['discharged'] += 1
                if len(ur.res['samples']) < 3:
                    m = st.witness_model()
                    if m is not None:
                        ur.sample({'range': '%s-%s-%s..%s' % (ean, group, low, high), 'number': E.model_str(m, x), 'parts': [E.model_val(m, p) for p in parts]})
                continue
            m = st.witness_model()
            if m is None:
                continue
            xs = E.model_str(m, x)
            real = ur.replay([step('stdnum.isbn', 'split', xs)])
            if real and real[0]['kind'] == 'ret' and not (len(real[0]['value']) == 5 and all(p['value'] for p in real[0]['value'])):
                ur.violation({'module': 'stdnum.isbn', 'func': 'split', 'options': '', 'kind': 'range-does-not-give-five-parts', 'witness': xs,
                              'frame': 'isbn.dat:%s-%s:%s-%s' % (ean, group, low, high), 'detail': 'split(%r) -> %r' % (xs, [p['value'] for p in real[0]['value']]),
                              'steps': [step('stdnum.isbn', 'split', xs)]})
            else:
                ur.divergence({'input': xs, 'symbolic': 'not five parts', 'real': real})
    return ur.finish()


def unit_gs1(unit):
    from . import c16
    return c16.unit_fn(unit)


def unit_fn(unit):
    return {'grammar': unit_grammar, 'reach': unit_reach, 'iban': unit_iban, 'isbn': unit_isbn, 'gs1': unit_gs1}[unit['kind']](unit)


def main(args):
    import random
    from spec import numdb_ref
    tier = args.tier
    rnd = random.Random(common.seed())
    units = []
    trees = {}
    for name in registries():
        units.append({'kind': 'grammar', 'module': 'stdnum.numdb', 'registry': name, 'L': 0})
        text = open(os.path.join(common.REPO, 'stdnum', name + '.dat'), encoding='utf-8').read()
        try:
            trees[name] = numdb_ref.parse_file(text)
        except Exception:
            continue
    for name, tree in sorted(trees.items()):
        ents = [([a[1] for a in path], e[1], e[2], e[3]) for path, e in _flatten(tree)]
        cap = (400 if tier == 'quick' else 4000)
        if len(ents) > cap:
            ents = rnd.sample(ents, cap)
        chunk = 30 if tier == 'quick' else 100
        for i in range(0, len(ents), chunk):
            units.append({'kind': 'reach', 'module': 'stdnum.numdb', 'registry': name, 'entries': ents[i:i + chunk], 'L': 0, 'timeout': 100 if tier == 'quick' else 1500})
    # IBAN country structures
    if 'iban' in trees:
        cs = []
        for e in trees['iban']:
            if e[3].get('bban'):
                import re
                cs.append((e[1], 4 + sum(int(n) for n in re.findall(r'(\d+)!', e[3]['bban'])), e[3]['bban']))
        if tier == 'quick':
            cs = rnd.sample(cs, min(40, len(cs)))
        for i in range(0, len(cs), 2):
            units.append({'kind': 'iban', 'module': 'stdnum.iban', 'countries': cs[i:i + 2], 'L': 0, 'timeout': 100 if tier == 'quick' else 600})
    if 'isbn' in trees:
        rs = []
        for e in trees['isbn']:
            for g in e[4]:
                for r in g[4]:
                    rs.append((e[1], g[1], r[1], r[2]))
        if tier == 'quick':
            rs = rnd.sample(rs, min(240, len(rs)))
        for i in range(0, len(rs), 10):
            units.append({'kind': 'isbn', 'module': 'stdnum.isbn', 'ranges': rs[i:i + 10], 'L': 0, 'timeout': 100 if tier == 'quick' else 900})
    if 'gs1_ai' in trees:
        # each GS1 application identifier can be encoded and decoded (the C16 unit, one identifier at a time, maximal lengths)
        ents = []
        for e in trees['gs1_ai']:
            for n in range(int(e[1]), int(e[2]) + 1):
                ents.append((str(n).zfill(len(e[1])), e[3]))
        for ai, props in ents:
            units.append({'kind': 'gs1', 'module': 'stdnum.gs1_128', 'ais': [(ai, props)], 'L': 0, 'variants': [2] if tier == 'quick' else [0, 1, 2, 5],
                          'max_paths': 100, 'timeout': 25 if tier == 'quick' else 200, 'options': {'ai': ai}})
    if getattr(args, 'units_only', False):
        return units
    if tier != 'quick':
        # thorough = the quick tier's units first (larger caps), then everything else while the budget lasts
        import copy
        qa = copy.copy(args)
        qa.tier, qa.units_only = 'quick', True
        units = common.plan_thorough(units, main(qa))
    rep = common.Report('C11', tier)
    rep.assumptions = ASSUMPTIONS
    rep.bounds = {'registries': {n: sum(1 for _ in _flatten(t)) for n, t in trees.items()}, 'sampling': 'seed-rotated (VERIF_SEED) for registries above the per-tier cap'}
    deadline = time.time() + (common.QUICK_S if tier == 'quick' else common.THOROUGH_S)

    def progress(done, total, res):
        if args.verbose:
            u = res['unit']
            print('[%d/%d] %s %s %s %s viol=%d' % (done, total, u['kind'], u.get('registry') or '', res.get('outcomes', res.get('error', res.get('skipped'))), res.get('wall_s'), len(res.get('violations', []))), file=sys.stderr)
    for res in common.run_units(unit_fn, (units if tier == 'quick' else sorted(units, key=common._prio)), (lambda u: u.get('timeout', 200) * 2 + 200), progress, deadline):
        rep.add_unit(res)
    return rep.finish()
