# Documented keyword options of validate()/is_valid(), per module (DESIGN.md section 6).
# Each entry: list of option dicts in addition to the default {}.  'quick' lists the subset used in the quick tier.
# Values are the ones the docstrings document (booleans both ways, None/each documented value).

OPTIONS = {
    'stdnum.at.tin': [{'office': 'Bruck Eisenstadt Oberwart'}, {'office': 'nowhere'}],
    'stdnum.damm': [{'table': ((0, 2, 3, 4, 5, 6, 7, 8, 9, 1), (2, 0, 4, 1, 7, 9, 5, 3, 8, 6), (3, 7, 0, 5, 2, 8, 1, 6, 4, 9),
                               (4, 1, 8, 0, 6, 3, 9, 2, 7, 5), (5, 6, 2, 9, 0, 7, 4, 1, 3, 8), (6, 9, 7, 3, 1, 0, 8, 5, 2, 4),
                               (7, 5, 1, 8, 4, 2, 0, 9, 6, 3), (8, 4, 6, 2, 9, 5, 3, 0, 1, 7), (9, 8, 5, 7, 3, 1, 6, 4, 0, 2),
                               (1, 3, 9, 6, 8, 4, 2, 7, 5, 0))}],
    'stdnum.de.handelsregisternummer': [{'company_form': 'GmbH'}, {'company_form': 'PartG'}],
    'stdnum.de.stnr': [{'region': 'Sachsen'}, {'region': 'Nordrhein-Westfalen'}, {'region': 'Berlin'}, {'region': 'Bayern'}],
    'stdnum.fi.hetu': [{'allow_temporary': True}],
    'stdnum.gs1_128': [{'separator': '\x1d'}, {'separator': '~'}],
    'stdnum.iban': [{'check_country': False}],
    'stdnum.isan': [{'strip_check_digits': True}, {'add_check_digits': True}, {'strip_check_digits': True, 'add_check_digits': True}],
    'stdnum.isbn': [{'convert': True}],
    'stdnum.iso7064.mod_37_2': [{'alphabet': '0123456789X'}],
    'stdnum.iso7064.mod_37_36': [{'alphabet': '0123456789'}],
    'stdnum.kr.rrn': [{'allow_future': False}],
    'stdnum.lt.asmens': [{'validate_birth_date': False}],
    'stdnum.luhn': [{'alphabet': '0123456789abcdef'}],
    'stdnum.mac': [{'validate_manufacturer': True}, {'validate_manufacturer': False}],
    'stdnum.meid': [{'strip_check_digit': False}],
    'stdnum.mx.curp': [{'validate_check_digits': False}],
    'stdnum.mx.rfc': [{'validate_check_digits': True}],
}


def option_sets(modname, info, tier='quick'):
    """[{}] + documented option dicts, restricted to parameters validate() really has"""
    params = [p[0] for p in (info['functions'].get('validate', {}).get('params') or [])[1:]]
    out = [{}]
    for o in OPTIONS.get(modname, []):
        if all(k in params for k in o):
            out.append(o)
    return out


def accepted_by(info, fname, opts):
    params = [p[0] for p in (info['functions'].get(fname, {}).get('params') or [])[1:]]
    return all(k in params for k in opts)
