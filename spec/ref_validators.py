# Independent transcriptions of the published rules for the identifiers of property C07.
# Written from the standards (ISO 2108, GS1 General Specifications 7.9, ISO 3297, ISO 10957, ISO 6166, ISO 13616 + the SWIFT
# registry structure strings, 3GPP TS 23.003, ISO 11649, ISO 27729, ISO 17442, GRid Standard v2.1, ANSI X9.6, LSE SEDOL
# master file technical spec, OMG FIGI v1.0, IMO resolution A.600(15), CAS check-digit rule, ISO 9362, ISO 3901), not from
# the stdnum sources.  Each function takes the candidate in COMPACT presentation (no separators; the harness feeds strings
# over the characters '0'..'Z') and returns the canonical string or raises Reject.  The registry tables (ISO 3166 lists,
# iban.dat) are the ones shipped with the library ("given the same registry tables"), read through this file's own parser.
#
# This file is executed both by the symbolic engine (through the AST transform) and by the plain interpreter (replay).
import os

from stdnum.exceptions import ValidationError


class Reject(ValidationError):
    pass


DIGITS = '0123456789'
UPPER = 'ABCDEFGHIJKLMNOPQRSTUVWXYZ'
ALNUM = DIGITS + UPPER


def _all_in(s, alphabet):
    for c in s:
        if c not in alphabet:
            return False
    return True


def _value(c):
    """digit value of 0-9, A=10 .. Z=35"""
    return ALNUM.index(c)


def _mod97(s):
    """ISO 7064 MOD 97-10 remainder of an alphanumeric string, computed piece-wise left to right"""
    r = 0
    for c in s:
        v = _value(c)
        if v < 10:
            r = (r * 10 + v) % 97
        else:
            r = (r * 100 + v) % 97
    return r


def _luhn_ok(digits):
    total = 0
    double = False
    for c in reversed(digits):
        d = DIGITS.index(c)
        if double:
            d = d * 2
            if d > 9:
                d = d - 9
        total = total + d
        double = not double
    return total % 10 == 0


def _gs1_check(body):
    """GS1 check digit for a string of digits (weights 3,1,3,... from the right)"""
    total = 0
    w = 3
    for c in reversed(body):
        total = total + w * DIGITS.index(c)
        w = 4 - w
    return DIGITS[(10 - total % 10) % 10]


def ean(x):
    if len(x) not in (8, 12, 13, 14):
        raise Reject()
    if not _all_in(x, DIGITS):
        raise Reject()
    if _gs1_check(x[:-1]) != x[-1]:
        raise Reject()
    return x


def isbn(x):
    # a 9-digit Standard Book Number is an ISBN-10 without its leading zero
    if len(x) == 9:
        x = '0' + x
    if len(x) == 10:
        if not _all_in(x[:9], DIGITS) or x[9] not in DIGITS + 'X':
            raise Reject()
        total = 0
        for i in range(9):
            total = total + (10 - i) * DIGITS.index(x[i])
        total = total + (10 if x[9] == 'X' else DIGITS.index(x[9]))
        if total % 11 != 0:
            raise Reject()
        return x
    if len(x) == 13:
        if not _all_in(x, DIGITS):
            raise Reject()
        if x[:3] != '978' and x[:3] != '979':
            raise Reject()
        if _gs1_check(x[:12]) != x[12]:
            raise Reject()
        return x
    raise Reject()


def issn(x):
    if len(x) != 8 or not _all_in(x[:7], DIGITS) or x[7] not in DIGITS + 'X':
        raise Reject()
    total = 0
    for i in range(7):
        total = total + (8 - i) * DIGITS.index(x[i])
    total = total + (10 if x[7] == 'X' else DIGITS.index(x[7]))
    if total % 11 != 0:
        raise Reject()
    return x


def ismn(x):
    if len(x) == 10:
        if x[0] != 'M' or not _all_in(x[1:], DIGITS):
            raise Reject()
        if _gs1_check('9790' + x[1:9]) != x[9]:
            raise Reject()
        return x
    if len(x) == 13:
        if not _all_in(x, DIGITS) or x[:4] != '9790':
            raise Reject()
        if _gs1_check(x[:12]) != x[12]:
            raise Reject()
        return x
    raise Reject()


def isin(x):
    from stdnum.isin import _country_codes
    if len(x) != 12 or not _all_in(x, ALNUM):
        raise Reject()
    if x[:2] not in _country_codes:
        raise Reject()
    if x[11] not in DIGITS:
        raise Reject()
    # letters expand to two digits; Luhn over the expanded digit string including the check digit
    expanded = ''
    for c in x:
        v = _value(c)
        if v < 10:
            expanded = expanded + DIGITS[v]
        else:
            expanded = expanded + DIGITS[v // 10] + DIGITS[v % 10]
    if not _luhn_ok(expanded):
        raise Reject()
    return x


_IBAN = {}


def _iban_table():
    if not _IBAN:
        import stdnum
        path = os.path.join(os.path.dirname(stdnum.__file__), 'iban.dat')
        for line in open(path, encoding='utf-8').read().split('\n'):
            if not line or line.startswith('#') or line.startswith(' '):
                continue
            cc = line.split(' ')[0]
            props = {}
            for part in line.split(' ')[1:]:
                if '="' in part:
                    k, v = part.split('="', 1)
                    props[k] = v.rstrip('"')
            # the registered length is the country code, two check digits and the elements of the BBAN structure
            total = 4
            i = 0
            st = props['bban']
            while i < len(st):
                j = i
                while st[j] in DIGITS:
                    j += 1
                total += int(st[i:j])
                i = j + 2
            _IBAN[cc] = (total, st)
    return _IBAN


def _bban_ok(bban, structure):
    """structure: sequence of <count>!<type> with type n (digits), a (upper-case letters), c (alphanumeric)"""
    pos = 0
    i = 0
    while i < len(structure):
        j = i
        while structure[j] in DIGITS:
            j += 1
        count = int(structure[i:j])
        if structure[j] != '!':
            raise ValueError('variable-length BBAN element in registry')
        kind = structure[j + 1]
        alphabet = {'n': DIGITS, 'a': UPPER, 'c': ALNUM}[kind]
        if pos + count > len(bban) or not _all_in(bban[pos:pos + count], alphabet):
            return False
        pos += count
        i = j + 2
    return pos == len(bban)


def iban(x):
    table = _iban_table()
    if len(x) < 5 or not _all_in(x, ALNUM):
        raise Reject()
    cc = x[:2]
    if cc not in table:
        raise Reject()
    length, structure = table[cc]
    if len(x) != length:
        raise Reject()
    if x[2] not in DIGITS or x[3] not in DIGITS:
        raise Reject()
    if x[2:4] in ('00', '01', '99'):
        raise Reject()      # check digits are 98 - remainder: 02..98
    if not _bban_ok(x[4:], structure):
        raise Reject()
    if _mod97(x[4:] + x[:4]) != 1:
        raise Reject()
    return x


def imei(x):
    if not _all_in(x, DIGITS):
        raise Reject()
    if len(x) == 15:
        if not _luhn_ok(x):
            raise Reject()
        return x
    if len(x) == 14 or len(x) == 16:
        return x          # IMEI without check digit / IMEISV
    raise Reject()


def iso11649(x):
    if len(x) < 5 or len(x) > 25 or x[:2] != 'RF':
        raise Reject()
    if x[2] not in DIGITS or x[3] not in DIGITS or not _all_in(x[4:], ALNUM):
        raise Reject()
    if _mod97(x[4:] + x[:4]) != 1:
        raise Reject()
    return x


def isni(x):
    if len(x) != 16 or not _all_in(x[:15], DIGITS) or x[15] not in DIGITS + 'X':
        raise Reject()
    r = 0
    for c in x[:15]:
        r = (r + DIGITS.index(c)) * 2 % 11
    check = (12 - r) % 11
    if (10 if x[15] == 'X' else DIGITS.index(x[15])) != check:
        raise Reject()
    return x


def lei(x):
    if len(x) != 20 or not _all_in(x[:18], ALNUM) or x[18] not in DIGITS or x[19] not in DIGITS:
        raise Reject()
    if _mod97(x) != 1:
        raise Reject()
    return x


def grid(x):
    if len(x) != 18 or not _all_in(x, ALNUM):
        raise Reject()
    # ISO 7064 MOD 37,36 hybrid system
    p = 36
    for c in x:
        s = (p + _value(c)) % 36
        if s == 0:
            s = 36
        p = (s * 2) % 37
    # after the check character the running value s must be 1
    if s != 1:
        raise Reject()
    return x


def cusip(x):
    alphabet = ALNUM + '*@#'
    if len(x) != 9 or not _all_in(x[:8], alphabet) or x[8] not in DIGITS:
        raise Reject()
    total = 0
    for i in range(8):
        v = alphabet.index(x[i])
        if i % 2 == 1:
            v = v * 2
        total = total + v // 10 + v % 10
    if DIGITS[(10 - total % 10) % 10] != x[8]:
        raise Reject()
    return x


def sedol(x):
    consonants = 'BCDFGHJKLMNPQRSTVWXYZ'
    if len(x) != 7 or not _all_in(x[:6], DIGITS + consonants) or x[6] not in DIGITS:
        raise Reject()
    # codes allocated before 2004 are purely numeric; later codes start with a letter
    if x[0] in DIGITS and not _all_in(x, DIGITS):
        raise Reject()
    weights = (1, 3, 1, 7, 3, 9)
    total = 0
    for i in range(6):
        total = total + weights[i] * ALNUM.index(x[i])
    if DIGITS[(10 - total % 10) % 10] != x[6]:
        raise Reject()
    return x


def figi(x):
    consonants = 'BCDFGHJKLMNPQRSTVWXYZ'
    if len(x) != 12 or not _all_in(x[:11], DIGITS + consonants) or x[11] not in DIGITS:
        raise Reject()
    if x[0] not in consonants or x[1] not in consonants:
        raise Reject()
    if x[:2] in ('BS', 'BM', 'GG', 'GB', 'GH', 'KY', 'VG'):
        raise Reject()
    if x[2] != 'G':
        raise Reject()
    total = 0
    for i in range(11):
        v = ALNUM.index(x[i])
        if i % 2 == 1:
            v = v * 2
        total = total + v // 10 + v % 10
    if DIGITS[(10 - total % 10) % 10] != x[11]:
        raise Reject()
    return x


def imo(x):
    if len(x) != 7 or not _all_in(x, DIGITS):
        raise Reject()
    total = 0
    for i in range(6):
        total = total + (7 - i) * DIGITS.index(x[i])
    if DIGITS[total % 10] != x[6]:
        raise Reject()
    return x


def casrn(x):
    # compact presentation used by the library: digits with the two hyphens, e.g. 7732-18-5; a number written without any
    # hyphen is the same number (the hyphens only group the last three digits as 2 + 1)
    if '-' not in x:
        x = x[:-3] + '-' + x[-3:-1] + '-' + x[-1:]
    parts = x.split('-')
    if len(parts) != 3:
        raise Reject()
    a, b, c = parts
    if not (2 <= len(a) <= 7) or len(b) != 2 or len(c) != 1:
        raise Reject()
    if not _all_in(a, DIGITS) or not _all_in(b, DIGITS) or c not in DIGITS:
        raise Reject()
    if a[0] == '0':
        raise Reject()
    total = 0
    w = 1
    for ch in reversed(a + b):
        total = total + w * DIGITS.index(ch)
        w += 1
    if DIGITS[total % 10] != c:
        raise Reject()
    return x


def bic(x):
    if len(x) != 8 and len(x) != 11:
        raise Reject()
    # business party prefix: four letters (as registered by SWIFT), country code: two letters, then alphanumerics
    if not _all_in(x[:6], UPPER) or not _all_in(x[6:], ALNUM):
        raise Reject()
    return x


def isrc(x):
    from stdnum.isrc import _country_codes
    if len(x) != 12:
        raise Reject()
    if not _all_in(x[:2], UPPER) or not _all_in(x[2:5], ALNUM) or not _all_in(x[5:], DIGITS):
        raise Reject()
    if x[:2] not in _country_codes:
        raise Reject()
    return x


# --- Bitcoin, native SegWit addresses (BIP-173) ---------------------------------------------------------------------------
# Base58Check addresses (P2PKH / P2SH) need SHA-256 and are outside what the engine can execute; the harness only feeds
# candidates that start with the human-readable part and separator of a main-net Bech32 address ("BC1", upper case as
# everything else in this file's input alphabet).  The canonical form is the lower-case address.

BECH32_CHARSET = 'qpzry9x8gf2tvdw0s3jn54khce6mua7l'
BECH32_GENERATOR = [0x3b6a57b2, 0x26508e6d, 0x1ea119fa, 0x3d4233dd, 0x2a1462b3]


def _bech32_polymod(values):
    chk = 1
    for v in values:
        b = chk >> 25
        chk = ((chk & 0x1ffffff) << 5) | v
        for i in range(5):
            chk = chk ^ (BECH32_GENERATOR[i] if (b & (1 << i)) else 0)
    return chk


def bitcoin_bech32(x):
    if x[:3] != 'BC1':
        raise Reject()
    if len(x) > 90:
        raise Reject()
    # the address is all upper case here (no mixed case possible); the character set is defined in lower case
    data_part = x.lower()[3:]
    if len(data_part) < 6 or not _all_in(data_part, BECH32_CHARSET):
        raise Reject()
    data = [BECH32_CHARSET.index(c) for c in data_part]
    # human-readable part "bc" expanded: high bits, zero, low bits
    hrp = [ord('b') >> 5, ord('c') >> 5, 0, ord('b') & 31, ord('c') & 31]
    if _bech32_polymod(hrp + data) != 1:
        raise Reject()
    payload = data[:-6]
    if len(payload) < 1:
        raise Reject()
    version = payload[0]
    if version > 16:
        raise Reject()
    # regroup the 5-bit groups after the version into bytes; no padding of 5 or more bits, padding bits zero
    acc = 0
    bits = 0
    nbytes = 0
    for v in payload[1:]:
        acc = ((acc << 5) | v) & 4095
        bits = bits + 5
        if bits >= 8:
            bits = bits - 8
            nbytes = nbytes + 1
    if bits >= 5:
        raise Reject()
    if (acc & ((1 << bits) - 1)) != 0:
        raise Reject()
    if nbytes < 2 or nbytes > 40:
        raise Reject()
    if version == 0 and nbytes != 20 and nbytes != 32:
        raise Reject()
    return x.lower()
