# Reference reading of the registry semantics, written from the property text (C10), NOT from stdnum/numdb.py:
#   - at each level the shortest matching prefix range wins,
#   - the properties of all ranges of that length that match are merged (file order),
#   - their children are searched in the remainder,
#   - an unmatched remainder is returned as one property-less part; the empty string has no parts.
# A prefix structure is a list of [length, low, high, props, children].
# This file is loaded through the same transform as the code under test, so it runs on symbolic strings too.


def find(number, prefixes):
    if len(number) == 0:
        return []
    best = None
    for entry in prefixes:
        length = entry[0]
        if len(number) >= length:
            head = number[:length]
            if entry[1] <= head and head <= entry[2]:
                if best is None or length < best:
                    best = length
    if best is None:
        return [(number, {})]
    props = {}
    kids = []
    for entry in prefixes:
        if entry[0] == best:
            head = number[:best]
            if entry[1] <= head and head <= entry[2]:
                props.update(entry[3])
                kids.extend(entry[4])
    return [(number[:best], props)] + find(number[best:], kids)


def parse_file(text):
    """independent reader of the .dat grammar: returns the prefix structure (same shape as above)"""
    root = []
    stack = []                 # (indent, children list) of the open ancestors: a line belongs to the nearest shallower line
    for raw in text.split('\n'):
        line = raw.rstrip('\r')
        if line.strip() == '' or line.startswith('#'):
            continue
        indent = len(line) - len(line.lstrip(' '))
        body = line[indent:]
        # ranges = first whitespace-delimited token
        i = 0
        while i < len(body) and not body[i].isspace():
            i += 1
        ranges, rest = body[:i], body[i:]
        props = {}
        j = 0
        while j < len(rest):
            if rest[j].isspace():
                j += 1
                continue
            k = rest.index('=', j)
            name = rest[j:k]
            if rest[k + 1] != '"':
                raise ValueError('malformed property in line %r' % raw)
            e = rest.index('"', k + 2)
            props[name] = rest[k + 2:e]
            j = e + 1
        while stack and stack[-1][0] >= indent:
            stack.pop()
        target = stack[-1][1] if stack else root
        children = []
        for r in ranges.split(','):
            if '-' in r:
                low, high = r.split('-')
            else:
                low, high = r, r
            target.append([len(low), low, high, props, children])
        stack.append((indent, children))
    return root
