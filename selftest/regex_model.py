import sys, re, random
sys.path.insert(0,'/verif')
from symx import engine as E
import z3
# differential test of the regex model: for each pattern, symbolic string of length L; for every path compare with real re on the witness
pats = [(r'^\s*GRID\s*:?\s*', re.I, 'sub'), (r'[ -]', 0, 'sub'), (r'^[A-Z]{2}\d{2,4}$', re.I, 'match'), (r'^(\d+)-(\d)$', 0, 'match'), (r'x*', 0, 'sub'), (r'^[k-m]s?$', re.I, 'match')]
for pat, fl, mode in pats:
    P = E.SPattern(pat, fl)
    for L in (0, 1, 3, 5):
        def body():
            x, ch = E.symstr(L)
            if mode == 'sub':
                return x, P.sub('/', x) if L else P.sub('/', '')
            m = P.match(x) if L else P.match('')
            return x, (None if m is None else (m.group(0), m.groups()))
        n = 0; bad = 0
        E.CONFIG['K'] = 3
        for st, out in E.explore(body, max_paths=400, timeout=20):
            if st is None: break
            if out[0] != 'ret': 
                if out[0]=='abort' and out[1].kind in ('infeasible','cut'): continue
                print('  ', pat, L, out); continue
            m = st.witness_model()
            if m is None: continue
            n += 1
            x, r = out[1]
            xs = E.model_str(m, x)
            if mode == 'sub':
                real = re.sub(pat, '/', xs, flags=fl)
                got = E.model_val(m, r)
            else:
                mm = re.match(pat, xs, fl)
                real = None if mm is None else (mm.group(0), mm.groups())
                got = E.model_val(m, r)
            if real != got:
                bad += 1; print('  MISMATCH', pat, repr(xs), real, got)
        print(pat, L, 'paths', n, 'bad', bad)
