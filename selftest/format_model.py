import sys
sys.path.insert(0,'/verif')
from symx import engine as E
import z3, tempfile, os
src = '''
def f(n, s):
    a = '{:,}'.format(n)
    b = f"{n:03d}-{s}"
    c = '{0}/{1:5d}'.format(s, n)
    return a, b, c
'''
d=tempfile.mkdtemp(); open(d+'/fm.py','w').write(src)
E.install('/repo'); m=E.load_file('fm_test', d+'/fm.py')
E.install('/repo')
bad=0;n=0
def body():
    v=E.symint('v',0,12345678); s,c=E.symstr(2,'s',48,57)
    return v,s,m.f(v,s)
for st,out in E.explore(body,max_paths=50,timeout=30):
    if st is None: break
    if out[0]!='ret': print(out); continue
    mdl=st.witness_model(); 
    if mdl is None: continue
    n+=1
    v,s,r=out[1]; vc=E.model_val(mdl,v); sc=E.model_str(mdl,s)
    want=('{:,}'.format(vc), f"{vc:03d}-{sc}", '{0}/{1:5d}'.format(sc,vc)); got=E.model_val(mdl,r)
    if got!=want: bad+=1; print('MISMATCH',vc,sc,got,want)
print('format model paths',n,'bad',bad)

# '%08X%06X' % (a, b) with symbolic ints (meid): zero-padded hexadecimal rendering
src2 = '''
def g(a, b):
    return '%08X%06X' % (a, b), '%04x' % b
'''
open(d+'/fm2.py','w').write(src2)
m2=E.load_file('fm_test2', d+'/fm2.py')
def body2():
    a=E.symint('a',0,2**32-1); b=E.symint('b',0,70000)
    return a,b,m2.g(a,b)
n2=0
for st,out in E.explore(body2,max_paths=50,timeout=60):
    if st is None: break
    if out[0]!='ret': print(out); continue
    # several witnesses per path
    for extra in ([], [E.zint(out[1][0]) > 0xABCDEF], [E.zint(out[1][1]) > 0x9fff]):
        mdl=st.witness_model(extra=extra)
        if mdl is None: continue
        n2+=1
        a,b,r=out[1]; ac=E.model_val(mdl,a); bc=E.model_val(mdl,b)
        want=('%08X%06X' % (ac,bc), '%04x' % bc); got=E.model_val(mdl,r)
        if got!=want: bad+=1; print('MISMATCH hex',ac,bc,got,want)
print('hex format model witnesses',n2,'bad',bad)
sys.exit(1 if bad else 0)
