import sys
sys.path.insert(0,'/verif')
from symx import engine as E
import z3, tempfile, os
src = '''
def f(n, s):
    a = '{:,}'.format(n)
    b = f"{n:03d}-{s}"
    c = '{0}/{1:5d}'.format(s, n)
    return a, b, c
'''
d=tempfile.mkdtemp(); open(d+'/fm.py','w').write(src)
E.install('/repo'); m=E.load_file('fm_test', d+'/fm.py')
E.install('/repo')
bad=0;n=0
def body():
    v=E.symint('v',0,12345678); s,c=E.symstr(2,'s',48,57)
    return v,s,m.f(v,s)
for st,out in E.explore(body,max_paths=50,timeout=30):
    if st is None: break
    if out[0]!='ret': print(out); continue
    mdl=st.witness_model(); 
    if mdl is None: continue
    n+=1
    v,s,r=out[1]; vc=E.model_val(mdl,v); sc=E.model_str(mdl,s)
    want=('{:,}'.format(vc), f"{vc:03d}-{sc}", '{0}/{1:5d}'.format(sc,vc)); got=E.model_val(mdl,r)
    if got!=want: bad+=1; print('MISMATCH',vc,sc,got,want)
print('format model paths',n,'bad',bad)
