# differential test of the int() model: every path of int(s) for symbolic s (lengths 1..3), witness compared with CPython
import sys
sys.path.insert(0, '/verif')
from symx import engine as E
import z3
bad = 0; n = 0
for base in (10, 16, 36):
    for L in (1, 2, 3):
        def body():
            x, ch = E.symstr(L)
            try:
                return x, ('ret', E.m_int(x, base))
            except ValueError:
                return x, ('ValueError', None)
        E.CONFIG['K'] = 3
        for st, out in E.explore(body, max_paths=3000, timeout=120):
            if st is None:
                break
            if out[0] != 'ret':
                continue
            m = st.witness_model()
            if m is None:
                continue
            x, (kind, v) = out[1]
            xs = E.model_str(m, x)
            n += 1
            try:
                real = ('ret', int(xs, base))
            except ValueError:
                real = ('ValueError', None)
            got = (kind, E.model_val(m, v) if kind == 'ret' else None)
            if got != real:
                bad += 1
                print('MISMATCH base', base, repr(xs), got, real)
print('int model: paths', n, 'mismatches', bad)
sys.exit(1 if bad else 0)
