# differential test of the Decimal / strptime models against CPython on solver-generated witnesses of every path
import sys, decimal, datetime
sys.path.insert(0, '/verif')
from symx import engine as E
import z3
bad = n = 0
for ni in range(0, 4):
    for nf in range(0, 10):
        if ni + nf == 0:
            continue
        def body():
            a, ac = E.symstr(ni, 'a', 48, 57)
            b, bc = E.symstr(nf, 'b', 48, 57)
            text = E.mk(ac + ([46] + bc if nf else []))
            d = E.SDecimal.of_text(text)
            return text, d.to_str()
        E.CONFIG['K'] = 9
        for st, out in E.explore(body, max_paths=500, timeout=60):
            if st is None:
                break
            if out[0] != 'ret':
                print('  ', out); continue
            m = st.witness_model()
            if m is None:
                continue
            n += 1
            t = E.model_str(m, out[1][0]); got = E.model_str(m, out[1][1]) if not isinstance(out[1][1], str) else out[1][1]
            real = str(decimal.Decimal(t))
            if real != got:
                bad += 1; print('MISMATCH Decimal', t, real, got)
E.CONFIG['K'] = 2
for fmt, L, lo, hi in (('%y%m%d', 6, 48, 57), ('%y%m', 4, 48, 57), ('%y%m%d%H%M', 10, 48, 57), ('%y%m%d%H%M%S', 12, 48, 57),
                       ('%y%m%d', 6, 0, 0x10ffff), ('%y%m%d', 5, 0, 0x10ffff), ('%y%m%d', 4, 32, 57), ('%Y%m%d', 8, 0, 0x10ffff), ('%y%m%d%H%M', 9, 32, 57),
                       ('%y%m%d%H%M%S', 11, 0, 0x10ffff), ('%y%m', 3, 0, 0x10ffff), ('%y%m%d', 7, 32, 57)):
    def body():
        x, c = E.symstr(L, 'x', lo, hi)
        try:
            return x, ('ret', E.m_strptime(x, fmt))
        except ValueError:
            return x, ('ValueError', None)
    for st, out in E.explore(body, max_paths=600, timeout=90):
        if st is None:
            break
        if out[0] != 'ret':
            continue
        m = st.witness_model()
        if m is None:
            continue
        n += 1
        xs = E.model_str(m, out[1][0]); kind, v = out[1][1]
        try:
            real = ('ret', datetime.datetime.strptime(xs, fmt))
        except ValueError:
            real = ('ValueError', None)
        got = (kind, v.concrete(m) if kind == 'ret' else None)
        if got != real:
            bad += 1; print('MISMATCH strptime', fmt, xs, real, got)
print('decimal/strptime models: paths', n, 'mismatches', bad)
sys.exit(1 if bad else 0)
